"""C05 Constraint assembly agrees with MuJoCo C.

Solver queries over the real row builders of mujoco_warp/_src/constraint.py (one generic thread, K mode, exact reals):
 refcheck    the reference models (checks/ref_c05.py) are validated numerically against the `mujoco` library
 efc_row     `_efc_row` (impedance, D, aref, pos, margin, frictionloss, type, id) == MuJoCo's getsolparam/getimpedance/
             mj_makeImpedance formulas for all inputs (pow uninterpreted + true pow facts); degenerate parameter regions
             are separate queries
 rows/*      every builder: counters advance by the number of rows, each row is handed to `_efc_row` with the reference
             (pos, impedance argument, diagApprox, solref, solimp, margin, vel, frictionloss, type, id) and the Jacobian row
             written (dense / sparse scatter) equals the reference row; inactive constraints add nothing
 contact/*   `_efc_contact_init`: every efc_address >= 0 points at a row of that contact, ndim per cone;
             `_efc_contact_update`: row arguments == MuJoCo's contact rows (pyramidal / elliptic, adhesion)
 dense = scatter(sparse): both specialisations are proven equal to the SAME reference row (row*/J); the direct relational
             query between the two specialisations is in C22 (dense=sparse/*)
Known divergences from MuJoCo have their own named queries (efc_row:degenerate/*, count/both-limits-active,
row*/invweight(body-welded-to-parent), row/margin(elliptic-friction)).
"""

import z3

from checks import lib
from checks import ref_c05 as rf
from wsym import core, kh, replay, report
from wsym.core import And, Implies, Not, Or, arith, cmp, is_sym, ite

PID = "C05"
ROW_OUTS = ["type_out", "id_out", "pos_out", "margin_out", "D_out", "vel_out", "aref_out", "frictionloss_out"]


# ------------------------------------------------------------------------------------------------ helpers


def ackermannize(terms, name="pow"):
  """replace every application of the uninterpreted `name` by a fresh real + pairwise congruence constraints, so that the
  query is pure nonlinear real arithmetic (decided by nlsat).  Sound and complete for EUF over these applications."""
  seen, vis = {}, set()

  def walk(t):
    if t.get_id() in vis:
      return
    vis.add(t.get_id())
    if z3.is_app(t) and t.decl().kind() == z3.Z3_OP_UNINTERPRETED and t.decl().name() == name and t.num_args() > 0:
      seen[t.get_id()] = t
    for c in t.children():
      walk(c)

  for t in terms:
    walk(t)
  apps = list(seen.values())
  vs = [z3.Real(f"{name}!{i}") for i in range(len(apps))]
  sub = list(zip(apps, vs))
  out = [z3.substitute(t, *sub) if sub else t for t in terms]
  cong = []
  for i in range(len(apps)):
    for j in range(i + 1, len(apps)):
      a, b = apps[i], apps[j]
      same = z3.substitute(z3.And(*[a.arg(k) == b.arg(k) for k in range(a.num_args())]), *sub)
      cong.append(z3.Implies(same, vs[i] == vs[j]))
  return out, cong, apps


def subst_fix(f, sub, rounds=8):
  """substitute index terms by their case values and simplify, to a fixpoint (reads whose position depends on earlier
  comparisons become concrete step by step).  The equalities term == value stay in the guard, so this is only a
  simplification of an equivalent query."""
  for _ in range(rounds):
    g = z3.simplify(z3.substitute(f, *sub))
    if g.eq(f):
      break
    f = g
  return f


HARD_TACTIC = ["simplify", "propagate-values", "ctx-solver-simplify", "smt"]


def sqrt_arg(it, s):
  """if s is a square-root symbol introduced by the interpreter (side axiom  x >= 0 => s >= 0 and s*s == x): x"""
  if not (is_sym(s) and z3.is_const(s) and str(s).startswith("sqrt!")):
    return None
  for ax in it.assumes:
    if is_sym(ax) and z3.is_implies(ax) and z3.is_and(ax.arg(1)) and ax.arg(1).num_args() == 2:
      e = ax.arg(1).arg(1)
      if z3.is_eq(e) and z3.is_app_of(ax.arg(0), z3.Z3_OP_GE) and ax.arg(1).arg(0).num_args() == 2 and ax.arg(1).arg(0).arg(0).eq(s):
        return e.arg(1) if not e.arg(1).eq(s) else None
  return None


def zero_lemmas(f):
  """TRUE facts about multiplication, instantiated for the products occurring in f: a product with a zero factor is zero;
  a square is non-negative"""
  acc, vis = [], set()

  def walk(t):
    if t.get_id() in vis:
      return
    vis.add(t.get_id())
    if z3.is_app_of(t, z3.Z3_OP_MUL):
      fs = [c for c in t.children() if not z3.is_rational_value(c)]
      if len(fs) >= 2:
        acc.append(z3.Implies(z3.Or(*[x == 0 for x in fs]), t == 0))
      cnt = {}
      for x in fs:
        cnt[x.get_id()] = cnt.get(x.get_id(), 0) + 1
      coef = [c for c in t.children() if z3.is_rational_value(c)]
      if fs and all(v % 2 == 0 for v in cnt.values()) and all(c.numerator_as_long() >= 0 for c in coef):
        acc.append(t >= 0)  # a product of squares is non-negative
    if z3.is_app_of(t, z3.Z3_OP_POWER) and z3.is_rational_value(t.arg(1)) and t.arg(1).as_long() == 2:
      acc.append(t >= 0)
    for c in t.children():
      walk(c)

  walk(f)
  return acc


def unit_literals(g, rounds=10):
  """literals implied by the conjunction g by unit propagation: [(atom, True/False)]"""
  lits = {}
  rest = [z3.simplify(core.zbool(g))]
  for _ in range(rounds):
    new, nxt = False, []
    for f in rest:
      stack = [f]
      while stack:
        t = stack.pop()
        if z3.is_and(t):
          stack.extend(t.children())
        elif z3.is_true(t):
          continue
        elif z3.is_not(t) and not (z3.is_and(t.arg(0)) or z3.is_or(t.arg(0)) or z3.is_not(t.arg(0))):
          if t.arg(0).get_id() not in lits:
            lits[t.arg(0).get_id()] = (t.arg(0), z3.BoolVal(False))
            new = True
        elif z3.is_not(t) and z3.is_or(t.arg(0)):
          stack.extend([z3.Not(c) for c in t.arg(0).children()])
        elif z3.is_and(t) or z3.is_or(t) or z3.is_not(t) or z3.is_app_of(t, z3.Z3_OP_ITE) or z3.is_implies(t):
          nxt.append(t)
        else:
          if t.get_id() not in lits:
            lits[t.get_id()] = (t, z3.BoolVal(True))
            new = True
    sub = list(lits.values())
    rest = [z3.simplify(z3.substitute(f, *sub)) for f in nxt] if sub else nxt
    if not new:
      break
  # the same comparison written the other way round (a >= b  <->  b <= a): z3 does not orient atoms uniquely
  for atom, val in list(lits.values()):
    if not (z3.is_app(atom) and atom.num_args() == 2):
      continue
    x, y = atom.arg(0), atom.arg(1)
    if not (z3.is_arith(x) and z3.is_arith(y)):
      continue
    mk = {">=": lambda: z3.ArithRef(z3.Z3_mk_le(x.ctx_ref(), y.as_ast(), x.as_ast()), x.ctx), "<=": lambda: z3.ArithRef(z3.Z3_mk_ge(x.ctx_ref(), y.as_ast(), x.as_ast()), x.ctx), ">": lambda: z3.ArithRef(z3.Z3_mk_lt(x.ctx_ref(), y.as_ast(), x.as_ast()), x.ctx), "<": lambda: z3.ArithRef(z3.Z3_mk_gt(x.ctx_ref(), y.as_ast(), x.as_ast()), x.ctx)}.get(atom.decl().name())
    if mk is not None:
      alt = z3.BoolRef(mk().as_ast(), x.ctx)
      if alt.get_id() not in lits:
        lits[alt.get_id()] = (alt, val)
  return list(lits.values())


def simplify_under(f, lits, rounds=8):
  """f with the literals replaced by their truth value, simplified to a fixpoint (equivalent to f wherever they hold)"""
  f = core.zbool(f) if not isinstance(f, z3.ExprRef) else f
  if not lits:
    return f
  for _ in range(rounds):
    g = z3.simplify(z3.substitute(f, *lits))
    if g.eq(f):
      break
    f = g
  return f


_COVERED = set()


def _mk_session(ctx, bg, strategy, ms):
  """strategy: 'smt' (default solver) or 'ctx' (contextual simplification first)"""
  sess = kh.Session([], ms)
  if strategy == "ctx":
    sess.s = z3.TryFor(z3.Then(*HARD_TACTIC), ms).solver()
  else:
    sess.s = z3.TryFor(z3.Tactic("smt"), ms).solver()
  sess.add(*bg)
  return sess


_BEST = {}


def _portfolio(ctx, bg, name, goal, guard, budget):
  """-> (QResult, session) of the first conclusive strategy, or the last inconclusive one.  The strategy that decided the
  previous query of the same kind is tried first."""
  import re

  lem = zero_lemmas(goal)
  plans = [("smt", [], 0.2), ("smt", lem, 0.3), ("ctx", lem, 0.5)]
  kind = re.sub(r"\[.*\]$", "", re.sub(r"^row\d+/", "", name))
  if kind in _BEST:
    plans.sort(key=lambda p: 0 if (p[0], bool(p[1])) == _BEST[kind] else 1)
  # strategy 0: maximal nonlinear products abstracted by fresh reals (syntactically identical products share a symbol).
  # An over-approximation: `unsat` is a proof of the original query; anything else is ignored.
  try:
    fs = [core.zbool(goal), core.zbool(guard)] + [core.zbool(b) for b in bg]
    pg = purify_products(fs)
    s0 = _mk_session(ctx, pg[2:], "smt", max(1000, int(budget * 0.1)))
    r0 = s0.prove(name, pg[0], pg[1])
    if r0.status == "unsat":
      r0.strategy = "products-abstracted"
      return r0, s0
  except z3.Z3Exception:
    pass
  r = sess = None
  for n_, (strat, extra, frac) in enumerate(plans):
    sess = _mk_session(ctx, list(bg) + extra, strat, max(1000, int(budget * (0.1 if n_ == 0 else frac))))
    r = sess.prove(name, goal, guard)
    if r.status in ("unsat", "sat"):
      _BEST[kind] = (strat, bool(extra))
      r.strategy = strat + ("+lemmas" if extra else "")
      return r, sess
    if n_ == 0:
      # counterexample search by concretisation (after the first inconclusive attempt): fix the float inputs (array
      # reads) to sample values, which makes the query (almost) linear.  Only a `sat` answer is used - it is a genuine
      # model of the original query, because constraints were only added.
      for seed in range(3):
        fix = sample_inputs([core.zbool(goal), core.zbool(guard)] + [core.zbool(b) for b in bg], seed)
        s2 = _mk_session(ctx, list(bg) + fix, "smt", max(1000, int(budget * 0.1)))
        r2 = s2.prove(name, goal, guard)
        if r2.status == "sat":
          r2.strategy = "sampled-inputs"
          return r2, s2
  return r, sess


def purify_products(fs):
  """each maximal product of >= 2 non-numeral factors replaced by a fresh real (same product term -> same symbol)"""
  cache, sub = {}, []

  def walk(t):
    if t.get_id() in cache:
      return
    cache[t.get_id()] = True
    if z3.is_app_of(t, z3.Z3_OP_MUL) and len([c for c in t.children() if not z3.is_rational_value(c)]) >= 2:
      sub.append((t, z3.Real(f"prod!{len(sub)}")))
      return  # maximal: do not descend
    for c in t.children():
      walk(c)

  for f in fs:
    walk(f)
  return [z3.substitute(f, *sub) if sub else f for f in fs]


def sample_inputs(fs, seed):
  """equalities fixing every real-valued array read occurring in fs to a small rational (deterministic in seed)"""
  import random

  rng = random.Random(1234 + seed)
  vals = ["1/2", "-1/2", "1/3", "2/3", "-2/3", "3/4", "-3/4", "1", "-1", "5/4", "3/2", "-4/3", "1/4", "2"]
  seen, out = set(), []

  def walk(t):
    if t.get_id() in seen:
      return
    seen.add(t.get_id())
    if z3.is_select(t) and t.sort() == z3.RealSort() and z3.is_const(t.arg(0)):
      out.append(t == z3.RealVal(rng.choice(vals)))
    for c in t.children():
      walk(c)

  for f in fs:
    walk(f)
  return out


def robust_replay(ctx, bg, goal, guard, nice, base):
  """replay wrapper: before replaying the solver's first model, ask for a counterexample with well-conditioned float inputs
  (regular solver parameters, moderate magnitudes, a sizeable difference) so that the deviation is visible in float32 on
  the real kernel; the verdict of the query is not affected (the original model is replayed if no such model exists)."""

  def rp(model):
    ok, path = base(model)
    if ok or nice is None:
      return ok, path
    try:
      s2 = _mk_session(ctx, bg, "smt", ctx.timeout_ms)
      r = s2.prove("witness", goal, And(guard, nice))
      if r.status == "sat":
        ok2, path2 = base(r.model)
        if ok2:
          return ok2, path2
    except Exception:
      pass
    return ok, path

  return rp


def prove_hard(ctx, bg, name, goal, guard, cases, cover_guard, path=None, cases_first=False, nice=None, **kw):
  """bilinear goals (Jacobian row . qvel, scatter of CSR rows).  The thread's own path condition (guard of the _efc_row
  call; `row/emitted` proves guard => path) is first propagated into the goal, which removes the predicated-execution
  ites.  Then a small portfolio (plain SMT; + zero-product lemmas; + contextual simplification) on the whole query; if
  all give up, a complete case split over the index patterns (`cases`: name, [(index term, value)], guard), each case
  substituted into the query (the equalities stay in the guard)."""
  goal = core.zbool(goal)
  if path is not None:
    goal = simplify_under(goal, unit_literals(path))
    guard = And(guard, path)
  if nice is not None and kw.get("replay") is not None:
    kw["replay"] = robust_replay(ctx, bg, goal, guard, nice, kw["replay"])
  T = ctx.timeout_ms
  if not (cases and cases_first):
    r, sess = _portfolio(ctx, bg, name, goal, guard, T if not cases else T // 2)
    if r.status == "unsat":
      ctx._rec(r)
      return r
    if r.status == "sat" or not cases:
      return ctx.prove(sess, name, goal, guard, **kw)
    ctx.notes.append(f"{name}: whole query inconclusive; decided by a complete case split over {len(cases)} index patterns")
  key = (id(cases), str(cover_guard))
  if key not in _COVERED:
    _COVERED.add(key)
    s1 = ctx.session(bg)
    ctx.prove(s1, name + "/cases-cover", Or(*[And(cg, *[cmp("==", t, v) for t, v in sb]) for _, sb, cg in cases]), cover_guard, **kw)
  bgz = z3.And(*[core.zbool(x) for x in bg])
  for cn, sb, cg in cases:
    # 1. the case's boolean literals (e.g. site- vs body-type) are propagated first (also into the index terms),
    # 2. then the index terms are replaced by their case values; the equalities stay in the guard
    cgz = core.zbool(cg)
    lits = unit_literals(cgz)
    L = lambda f: simplify_under(core.zbool(f) if not isinstance(f, z3.ExprRef) else f, lits)
    sub = [(L(t) if isinstance(t, z3.ExprRef) else t, L(v) if isinstance(v, z3.ExprRef) else z3.IntVal(v)) for t, v in sb]
    sub = [(t, v) for t, v in sub if isinstance(t, z3.ExprRef) and not z3.is_int_value(t)]
    link = z3.And(*[core.zbool(cmp("==", t, v)) for t, v in sb]) if sb else z3.BoolVal(True)
    S = (lambda f: subst_fix(L(f), sub)) if sub else L
    gl, gd = S(goal), z3.And(S(z3.And(bgz, core.zbool(guard))), cgz, link)
    r, sess = _portfolio(ctx, [], f"{name}[{cn}]", gl, gd, 3 * T)
    if r.status == "unsat":
      ctx._rec(r)
    else:
      ctx.prove(sess, f"{name}[{cn}]", gl, gd, **kw)
  return None


def pow_facts(si, x):
  """TRUE facts about real pow on the sanitised domain mid in [1e-4, 0.9999], power >= 1 (instances for the terms of the
  impedance curve).  x = |pos|/width."""
  d0, d1, w, mid, p = si
  P = rf.powf
  pm1 = rf.sub(p, 1.0)
  omm = rf.sub(1.0, mid)
  return [
    P(mid, 0.0) == 1,
    P(omm, 0.0) == 1,
    z3.Implies(pm1 == 0, z3.And(P(mid, pm1) == 1, P(omm, pm1) == 1)),
    P(mid, p) == mid * P(mid, pm1),
    P(omm, p) == omm * P(omm, pm1),
    P(mid, pm1) > 0,
    P(omm, pm1) > 0,
    z3.Implies(z3.And(x >= 0, x <= mid), z3.And(P(x, p) >= 0, P(x, p) <= P(mid, p))),
    z3.Implies(z3.And(x >= mid, x <= 1), z3.And(P(1 - x, p) >= 0, P(1 - x, p) <= P(omm, p))),
  ]


def _scal(spec, label):
  a = spec["args"][label]
  return a["scalar"] if "scalar" in a else a["vec"]


def goal_efc_row(spec, pre, post):
  """replay goal: outputs of the REAL _efc_row vs the float reference on the same inputs"""
  import numpy as np

  g = lambda l: _scal(spec, l)
  flags = int(g("opt_disableflags"))
  f32 = lambda v: float(np.float32(v))
  ref = rf.ref_row(
    (flags & rf.REFSAFE_BIT) == 0, f32(g("timestep")), f32(g("pos_aref")), f32(g("pos_imp")), f32(g("invweight")), [f32(x) for x in g("solref")], [f32(x) for x in g("solimp")], f32(g("margin")), f32(g("vel")), f32(g("frictionloss")), int(g("type")), int(g("id"))
  )
  bad = []
  for f in spec["env"]["fields"]:
    got = post[f + "_out"][0, 0]
    if not lib.approx(got, ref[f], rtol=2e-3, atol=1e-5):
      bad.append(f"{f}: mujoco_warp {got} vs MuJoCo reference {ref[f]}")
  return (not bad), "; ".join(bad) or "all fields agree with the reference"


# ------------------------------------------------------------------------------------------------ row builders (K mode)

ROWIN = ["opt_disableflags", "worldid", "timestep", "efcid", "pos_aref", "pos_imp", "invweight", "solref", "solimp", "margin", "vel", "frictionloss", "type", "id"]
ROWOUT = ["type", "id", "pos", "margin", "D", "vel", "aref", "frictionloss"]
SIMPLE = {
  "_equality_joint": rf.expected_equality_joint,
  "_equality_tendon": rf.expected_equality_tendon,
  "_friction_dof": rf.expected_friction_dof,
  "_friction_tendon": rf.expected_friction_tendon,
  "_limit_slide_hinge": rf.expected_limit_slide_hinge,
  "_limit_tendon": rf.expected_limit_tendon,
}


def row_summary(rows):
  """contract for `_efc_row` inside the builders: records the call (guard, arguments) and performs the eight stores with
  the copied fields and two fresh symbols D!row<j>, aref!row<j> (what _efc_row computes from the arguments is the efc_row
  unit).  Later read-modify-writes of the builder (aref -= Jdotv, adhesion) therefore stay visible."""

  def summ(it, fr, args):
    g = it.active(fr)
    a = dict(zip(ROWIN + [o + "_out" for o in ROWOUT], args))
    j = len(rows)
    a["D!"], a["aref!"] = z3.Real(f"D!row{j}"), z3.Real(f"aref!row{j}")
    rows.append((g, a))
    vals = {"type": a["type"], "id": a["id"], "pos": arith("+", a["pos_aref"], a["margin"]), "margin": a["margin"], "D": a["D!"], "vel": a["vel"], "aref": a["aref!"], "frictionloss": a["frictionloss"]}
    for o in ROWOUT:
      it.store(a[o + "_out"], (a["worldid"], a["efcid"]), vals[o], g, "_efc_row(contract)")
    return None

  return summ


class Builder:
  """one generic thread of a row builder, with `_efc_row` replaced by its recording contract"""

  def __init__(self, ctx, builder, spec, unroll, summaries=None, scalars=None, shapes=None):
    from mujoco_warp._src import constraint

    self.ctx, self.name, self.spec, self.U = ctx, builder, spec, unroll
    self.is_sparse = spec[0]
    self.k = getattr(constraint, builder)(*spec)
    self.loc = f"mujoco_warp._src.constraint:{builder}({', '.join(repr(x) for x in spec)})"
    self.rows = []
    summ = {"_efc_row": row_summary(self.rows)}
    summ.update(summaries or {})
    self.njmax, self.nnzmax = z3.Int("njmax_in"), z3.Int("njmax_nnz_in")
    sc = {"njmax_in": self.njmax, "njmax_nnz_in": self.nnzmax}
    sc.update(scalars or {})
    self.kt = lib.kernel_thread(self.k, scalars=sc, shapes=shapes, unroll=unroll, interp_kw={"summaries": summ})
    kt = self.kt
    self.w = kt.tid[0] if isinstance(kt.tid, tuple) else None
    ctx.encode(self.k)

  def counters(self, w):
    kt = self.kt
    self.e0, self.n = kt.pre("nefc_out", w), kt.atomic_total("nefc_out", w)
    self.a0, self.nn = kt.pre("efc_nnz_out", w), kt.atomic_total("efc_nnz_out", w)
    return [self.njmax >= 0, self.nnzmax >= 0, self.e0 >= 0, self.a0 >= 0]

  def fits(self, nrows):
    f = cmp("<=", arith("+", self.e0, nrows), self.njmax)
    if self.is_sparse:
      f = And(f, cmp("<=", arith("+", self.a0, self.nn), self.nnzmax))
    return f

  def written_J(self, w, row, c):
    """value of the Jacobian row `row` at column c as left by this thread (dense entry or scatter of the CSR row)"""
    kt = self.kt
    if not self.is_sparse:
      return kt.post("efc_J_out", w, row, c)
    nnz, adr = kt.post("efc_J_rownnz_out", w, row), kt.post("efc_J_rowadr_out", w, row)
    out = 0.0
    for k in range(self.U):
      hit = And(cmp("<", k, nnz), cmp("==", kt.post("efc_J_colind_out", w, 0, arith("+", adr, k)), c))
      out = arith("+", out, ite(hit, kt.post("efc_J_out", w, 0, arith("+", adr, k)), 0.0))
    return out

  def written_Jt(self, w, row, c):
    """the same as (condition, coefficient) contributions"""
    kt = self.kt
    if not self.is_sparse:
      return [(True, kt.post("efc_J_out", w, row, c))]
    nnz, adr = kt.post("efc_J_rownnz_out", w, row), kt.post("efc_J_rowadr_out", w, row)
    return [(And(cmp("<", k, nnz), cmp("==", kt.post("efc_J_colind_out", w, 0, arith("+", adr, k)), c)), kt.post("efc_J_out", w, 0, arith("+", adr, k))) for k in range(self.U)]

  def row_dot_qvel(self, w, row, nv):
    """(row written by this thread) . qvel : dense sum over columns < nv; CSR: sum over stored entries val_k*qvel[colind_k]"""
    kt = self.kt
    if not self.is_sparse:
      return rf.vsum([ite(cmp("<", cc, nv), arith("*", kt.post("efc_J_out", w, row, cc), kt.pre("qvel_in", w, cc)), 0.0) for cc in range(self.U)])
    nnz, adr = kt.post("efc_J_rownnz_out", w, row), kt.post("efc_J_rowadr_out", w, row)
    return rf.vsum([ite(cmp("<", k, nnz), arith("*", kt.post("efc_J_out", w, 0, arith("+", adr, k)), kt.pre("qvel_in", w, kt.post("efc_J_colind_out", w, 0, arith("+", adr, k)))), 0.0) for k in range(self.U)])

  def any_write(self):
    return Or(*[a.guard for a in self.kt.it.accesses if a.kind.startswith(("W", "A"))])

  def replay(self, name, what, extra=None):
    env = {"builder": self.name, "spec": list(self.spec), "what": what, "U": self.U}
    if what in ("J", "vel"):
      # the Jacobian contracts are uninterpreted in the solver model (its cdof / com arrays are arbitrary, often zero):
      # also try re-drawn float inputs, keeping the model's integers; these goals do not depend on solver parameters
      env["randomize_floats"] = 3
    env.update(extra or {})
    return lib.make_replay(self.ctx, self.kt, self.loc, name, "goal", goal="checks.c05:goal_builder", env=env)


def _spec_reader(spec, pre):
  scal = {l: a["scalar"] for l, a in spec["args"].items() if "scalar" in a}
  return rf.NumReader(pre, scal, spec["tid"], U=int(spec["env"].get("U", 8)))


def goal_builder(spec, pre, post):
  """replay goal for row builders: the rows the REAL kernel thread left (all efc fields, Jacobian row, counters) vs the
  MuJoCo reference evaluated in floats on the same input arrays"""
  import numpy as np

  e = spec["env"]
  name, is_sparse = e["builder"], bool(e["spec"][0])
  R = _spec_reader(spec, pre)
  exp = SIMPLE[name](R) if name in SIMPLE else rf.EXPECTED[name](R, is_sparse)
  w = R.tid[0]
  bad = []
  cnt = exp["counter"]
  got_rows = int(post["nefc_out"][w] - pre["nefc_out"][w])
  got_cnt = int(post[cnt][w] - pre[cnt][w])
  if exp.get("both"):
    want = 2
  else:
    want = len(exp["rows"]) if exp["act"] else 0
  if (got_rows != want or got_cnt != want) and e["what"] in ("rows", "count"):
    bad.append(f"thread allocates {got_rows} rows ({cnt} += {got_cnt}), MuJoCo: {want}")
  if exp["act"] and not exp.get("both") and e["what"] != "count":
    e0 = int(pre["nefc_out"][w])
    flags = int(R.scalar("opt_disableflags"))
    ts = float(pre["opt_timestep"][w % pre["opt_timestep"].shape[0]])
    nv = int(R.scalar("nv"))
    for r, row in enumerate(exp["rows"]):
      er = e0 + r
      if er >= post["efc_type_out"].shape[1]:
        continue
      if is_sparse:
        J = np.zeros(nv)
        nnz, adr = int(post["efc_J_rownnz_out"][w, er]), int(post["efc_J_rowadr_out"][w, er])
        for k in range(max(0, nnz)):
          c = int(post["efc_J_colind_out"][w, 0, adr + k])
          if 0 <= c < nv:
            J[c] += post["efc_J_out"][w, 0, adr + k]
      else:
        J = post["efc_J_out"][w, er, :nv]
      Jref = np.array([float(rf.jsum(exp["J"](r, c))) for c in range(nv)])
      if e["what"] in ("rows", "J") and not np.allclose(J, Jref, rtol=2e-3, atol=1e-5):
        bad.append(f"row {er} Jacobian {J} vs MuJoCo reference {Jref}")
      if e["what"] == "vel":
        # the C22 statement: efc.vel == (row as written) . qvel
        vw = float(sum(float(J[c]) * float(pre["qvel_in"][w, c]) for c in range(nv)))
        if not lib.approx(post["efc_vel_out"][w, er], vw, rtol=5e-3, atol=1e-4):
          bad.append(f"row {er} efc.vel = {post['efc_vel_out'][w, er]} vs written row . qvel = {vw}")
      if e["what"] in ("J", "vel"):
        continue
      vel = float(sum(Jref[c] * float(pre["qvel_in"][w, c]) for c in range(nv)))
      full = rf.ref_row((flags & rf.REFSAFE_BIT) == 0, ts, row["pos_aref"], row["pos_imp"], row["invweight"], row["solref"], row["solimp"], row["margin"], vel, row["frictionloss"], row["type"], row["id"])
      flds = ["type", "id", "pos", "margin", "vel", "frictionloss", "D"] + (["aref"] if row.get("aref_extra", 0.0) is not None else [])
      for f in flds:
        got = post[f"efc_{f}_out"][w, er]
        want_v = full[f] + (row.get("aref_extra", 0.0) if f == "aref" else 0.0)
        if not lib.approx(got, want_v, rtol=5e-3, atol=1e-4):
          bad.append(f"row {er} efc.{f} = {got} vs MuJoCo reference {want_v}")
  return (not bad), "; ".join(bad) or "rows agree with the reference"


def _row_goals_subset(B, exp, w, nv, r, g, a, row, er, rp, G, bg, names, tag, c, only_goals, sess):
  """a subset of the per-row obligations (used by C22: emitted + vel=J*qvel)"""
  ctx, kt = B.ctx, B.kt
  if "emitted" in only_goals:
    ctx.prove(sess, f"row{r}/emitted", And(g, cmp("==", a["efcid"], er), cmp("==", a["worldid"], w)), G, names=names, replay=rp, desc=f"{tag}: row {r} of an active fitting constraint is not assembled at nefc0+{r}")
  if "vel=J*qvel" in only_goals:
    velw = B.row_dot_qvel(w, er, nv)
    prove_hard(ctx, bg, f"row{r}/vel=J*qvel", cmp("==", a["vel"], velw), And(G, cmp("<=", nv, B.U)), exp.get("cases"), And(G, cmp("<=", nv, B.U)), path=g, cases_first=bool(exp.get("cases_first")), names=names, replay=B.replay(f"row{r}/vel", "vel"), desc=f"{tag}: row {r}: efc.vel differs from (Jacobian row written by the same thread) * qvel")


def check_rows(B, exp, w, nv, only_rows=None, common=True, only_goals=None):
  """the obligations shared by all builders.  exp: expected rows of this thread (ref_c05.expected_*)"""
  ctx, kt = B.ctx, B.kt
  nrows = len(exp["rows"])
  bg = kt.bg + B.counters(w)
  for text, cond in exp["pre"]:
    ctx.assume(text)
    bg.append(core.zbool(cond))
  # arrays indexed by dof are sized by nv (qvel; dense efc.J columns)
  ctx.assume("qvel (and the dense efc.J) have at least nv columns")
  bg.append(core.zbool(cmp("<=", nv, kt.cell("qvel_in").shape[1])))
  if not B.is_sparse:
    bg.append(core.zbool(cmp("<=", nv, kt.cell("efc_J_out").shape[2])))
  act, fits = exp["act"], B.fits(nrows)
  sess = ctx.session(bg)
  # reachability twin without the square-root side axioms: each of them only defines a fresh symbol (x >= 0 => s >= 0 and
  # s*s == x is satisfiable for every x), so they cannot make the preconditions vacuous; with them the model search is
  # nonlinear and may time out
  side_ids = {core.zbool(x).get_id() for x in kt.it.assumes if "sqrt!" in core.zbool(x).sexpr()}
  bg_ns = [b for b in bg if not (is_sym(b) and b.get_id() in side_ids)]
  ctx.reach(ctx.session(bg_ns), "twin:active-and-fitting", And(act, fits))
  names = {"w": w, "nefc0": B.e0, "njmax": B.njmax, "nnz0": B.a0, "njmax_nnz": B.nnzmax}
  tag = f"{B.name}{tuple(B.spec)}"
  # counters
  cnt = kt.atomic_total(exp["counter"], w)
  regular = Not(exp["both"]) if "both" in exp else True
  want = ite(act, nrows, 0)
  if common:
    ctx.prove(sess, "count", And(cmp("==", cnt, want), cmp("==", B.n, want)), regular, names=names, replay=B.replay("count", "count"), desc=f"{tag}: {exp['counter'][:-4]}/nefc do not advance by the number of rows MuJoCo creates for this constraint")
    if "both" in exp:
      ctx.reach(sess, "twin:both-limits-inside-margin", exp["both"])
      ctx.prove(sess, "count/both-limits-active", And(cmp("==", cnt, 2), cmp("==", B.n, 2)), exp["both"], names=names, replay=B.replay("count-both", "count"), desc=f"{tag}: both limits are inside the margin: MuJoCo creates one row per side (2 rows), mujoco_warp only the nearer side")
      inactive = exp["none"]
    else:
      inactive = Not(act)
    ctx.prove(sess, "inactive-writes-nothing", Not(B.any_write()), inactive, names=names, replay=B.replay("inactive", "count"), desc=f"{tag}: an inactive / disabled constraint writes to Data")
  # exactly one _efc_row call per expected row
  if len(B.rows) != nrows:
    ctx.error(f"{tag}: {len(B.rows)} _efc_row call sites for {nrows} expected rows")
    return sess, bg
  G = And(act, fits)
  ts = kt.pre("opt_timestep", arith("%", w, kt.cell("opt_timestep").shape[0]))
  nice_all = [cmp(">=", ts, 0.001), cmp("<=", ts, 0.01)]
  for row in exp["rows"]:
    reg = rf.regular_params(row["solref"], row["solimp"], ts, True)
    nice_all += list(reg.values()) + [cmp(">=", row["solref"][0], 0.01), cmp("<=", row["solref"][0], 0.05), cmp(">=", row["solref"][1], 0.5), cmp("<=", row["solref"][1], 1.0)]
    nice_all += [cmp(">=", row["solimp"][0], 0.5), cmp("<=", row["solimp"][1], 0.99), cmp("==", row["solimp"][4], 1.0), cmp(">=", row["solimp"][2], 0.01)]
    nice_all += [cmp(">=", row["invweight"], 0.2), cmp("<=", row["invweight"], 5.0), cmp("<=", row["margin"], 0.1), cmp(">=", row["margin"], 0.0)]
  nice_all = And(*nice_all)

  def witness(x, y):
    if is_sym(x) and x.sort() == z3.RealSort() or is_sym(y) and y.sort() == z3.RealSort():
      d = arith("-", x, y)
      return And(nice_all, Or(cmp(">=", d, 0.1), cmp("<=", d, -0.1)), cmp("<=", d, 5.0), cmp(">=", d, -5.0))
    return nice_all

  for r, ((g, a), row) in enumerate(zip(B.rows, exp["rows"])):
    if only_rows is not None and r not in only_rows:
      continue
    er = arith("+", B.e0, r)
    rp = B.replay(f"row{r}", "rows")
    want_goal = lambda nm: only_goals is None or nm in only_goals
    if only_goals is not None:
      _row_goals_subset(B, exp, w, nv, r, g, a, row, er, rp, G, bg_ns, names, tag, c=z3.Int("c"), only_goals=only_goals, sess=sess)
      continue
    ctx.prove(sess, f"row{r}/emitted", And(g, cmp("==", a["efcid"], er), cmp("==", a["worldid"], w)), G, names=names, replay=rp, desc=f"{tag}: row {r} of an active fitting constraint is not assembled at nefc0+{r}")
    ctx.prove(sess, f"row{r}/emitted-only-if-active", Implies(g, Or(act, exp.get("both", False))), True, names=names, replay=rp, desc=f"{tag}: a row is assembled for an inactive constraint")
    PH = lambda nm, goal, txt, guard=None, hard=False, nice=nice_all: prove_hard(ctx, bg_ns, nm, goal, G if guard is None else guard, exp.get("cases"), And(G, cmp("<=", nv, B.U)), path=g, cases_first=(hard or bool(exp.get("cases_first_all"))) and bool(exp.get("cases_first")), nice=nice, names=names, replay=rp, desc=f"{tag}: row {r}: {txt}")
    for f in ("pos_aref", "pos_imp", "invweight", "margin", "frictionloss", "type", "id"):
      if f == "pos_imp" and "pos_imp_norm_of" in row:
        # multi-row constraint: the impedance argument is the Euclidean norm of the rows' positions (each proven equal to MuJoCo's)
        sq = rf.vsum([arith("*", B.rows[j][1]["pos_aref"], B.rows[j][1]["pos_aref"]) for j in row["pos_imp_norm_of"]])
        goal = And(cmp(">=", a[f], 0.0), cmp("==", arith("*", a[f], a[f]), sq))
        xarg = sqrt_arg(kt.it, a[f])
        if xarg is not None:
          # the argument IS an interpreter square root sqrt(x) (s >= 0, s*s == x): compare the radicand
          goal = cmp("==", xarg, sq)
        # needs only the side axioms of the square roots (fewer assumptions = stronger statement, much smaller query)
        side = [core.zbool(x) for x in kt.it.assumes]
        prove_hard(ctx, side, f"row{r}/{f}", goal, g, None, True, names=names, replay=rp, desc=f"{tag}: row {r}: impedance argument is not the norm of the constraint's position rows")
        continue
      else:
        goal = cmp("==", a[f], row[f])
      wit = witness(a[f], row[f])
      if f == "invweight" and "invweight_guard" in row:
        PH(f"row{r}/{f}", goal, f"{f} handed to _efc_row differs from MuJoCo's row", And(G, row["invweight_guard"]), nice=wit)
        PH(f"row{r}/{f}(body-welded-to-parent)", goal, "SPARSE specialisation looks up body_invweight0 of body_weldid[body] instead of the body: for a body without joints attached to its parent the diagApprox (hence efc.D) differs from MuJoCo and from the dense specialisation", And(G, Not(row["invweight_guard"])), nice=wit)
        continue
      PH(f"row{r}/{f}", goal, f"{f} handed to _efc_row differs from MuJoCo's row", nice=wit)
    ctx.prove(sess, f"row{r}/solref", And(*[cmp("==", x, y) for x, y in zip(a["solref"].c, row["solref"])]), G, names=names, replay=rp, desc=f"{tag}: row {r}: wrong solref")
    ctx.prove(sess, f"row{r}/solimp", And(*[cmp("==", x, y) for x, y in zip(a["solimp"].c, row["solimp"])]), G, names=names, replay=rp, desc=f"{tag}: row {r}: wrong solimp")
    ctx.prove(sess, f"row{r}/timestep+flags", And(cmp("==", a["timestep"], kt.pre("opt_timestep", arith("%", w, kt.cell("opt_timestep").shape[0]))), cmp("==", a["opt_disableflags"], kt.args["opt_disableflags"])), G, names=names, replay=rp, desc=f"{tag}: row {r}: wrong timestep / disable flags")
    # Jacobian row vs reference, velocity = J.qvel
    c = z3.Int("c")
    velw = B.row_dot_qvel(w, er, nv)
    goals = [
      ("J", cmp("==", B.written_J(w, er, c), rf.jsum(exp["J"](r, c))), And(G, c >= 0, cmp("<", c, nv)), "Jacobian entry differs from MuJoCo's row"),
      # efc.vel = (written row) . qvel; together with row/J this gives efc.vel = J_MuJoCo . qvel (also the C22 obligation)
      ("vel=J*qvel", cmp("==", a["vel"], velw), And(G, cmp("<=", nv, B.U)), "efc.vel differs from (Jacobian row written by the same thread) * qvel"),
    ]
    if B.is_sparse:
      nnz, adr = kt.post("efc_J_rownnz_out", w, er), kt.post("efc_J_rowadr_out", w, er)
      goals.append(("csr-block", And(cmp(">=", nnz, 0), cmp("<=", nnz, B.U), cmp(">=", adr, B.a0), cmp("<=", arith("+", adr, nnz), arith("+", B.a0, B.nn))), G, "CSR row lies outside the non-zero block this thread allocated"))
    for gn, goal, guard, txt in goals:
      cs = exp.get("cases")
      if gn == "J" and cs and exp.get("cases_first"):
        # also enumerate the column: every Jacobian contract application then has concrete dof arguments
        cs = [(f"{n}/c{v}", sb + [(c, v)], cg) for n, sb, cg in cs for v in range(B.U)]
      prove_hard(ctx, bg_ns, f"row{r}/{gn}", goal, guard, cs, And(guard, cmp("<=", nv, B.U)), path=g, cases_first=bool(exp.get("cases_first")), nice=nice_all, names=dict(names, c=c), replay=B.replay(f"row{r}/{gn}", {"J": "J", "vel=J*qvel": "vel"}.get(gn, "rows")), desc=f"{tag}: row {r}: {txt}")
    # final state of the row = what _efc_row stored (+ the documented correction)
    for f in ("type", "id", "pos", "margin", "vel", "frictionloss", "D"):
      src = {"type": a["type"], "id": a["id"], "pos": arith("+", a["pos_aref"], a["margin"]), "margin": a["margin"], "vel": a["vel"], "frictionloss": a["frictionloss"], "D": a["D!"]}[f]
      ctx.prove(sess, f"row{r}/final/{f}", cmp("==", kt.post(f"efc_{f}_out", w, er), src), G, names=names, replay=rp, desc=f"{tag}: row {r}: efc.{f} is modified after _efc_row")
    extra = row.get("aref_extra", 0.0)
    if extra is not None:
      PH(f"row{r}/final/aref", cmp("==", kt.post("efc_aref_out", w, er), arith("+", a["aref!"], extra)), "efc.aref differs from the reference acceleration (+ Jdot*v correction)", And(G, cmp("<=", nv, B.U)), hard=True)
  return sess, bg


# ------------------------------------------------------------------------------------------------ contacts


def _cone(elliptic):
  from mujoco_warp._src import types

  return types.ConeType.ELLIPTIC if elliptic else types.ConeType.PYRAMIDAL


def goal_contact_init(spec, pre, post):
  import numpy as np

  e = spec["env"]
  R = _spec_reader(spec, pre)
  conid = R.tid[0]
  in_range, ctype, act, pos = rf.contact_active(R, conid, bool(e["adhesion"]))
  A = bool(in_range and ctype and act)
  w = int(pre["worldid_in"][conid]) if conid < len(pre["worldid_in"]) else 0
  ndim = int(rf.contact_ndim(bool(e["elliptic"]), int(R.rd("condim_in", conid)))) if A else 0
  e0 = int(pre["nefc_out"][w])
  njmax = int(R.scalar("njmax_in"))
  bad = []
  got = int(post["nefc_out"][w] - pre["nefc_out"][w])
  if got != ndim:
    bad.append(f"contact {conid}: nefc advanced by {got}, MuJoCo rows: {ndim}")
  adr = post["contact_efc_address_out"][conid]
  for k in range(min(ndim, adr.shape[0])):
    want = e0 + k if e0 + k < njmax else -1
    if int(adr[k]) != want:
      bad.append(f"efc_address[{conid},{k}] = {int(adr[k])}, expected {want}")
    elif want >= 0 and int(post["efc_id_out"][w, want]) != conid:
      bad.append(f"efc_address[{conid},{k}] = {want} but efc.id[{want}] = {int(post['efc_id_out'][w, want])}")
  for k in range(ndim, adr.shape[0]):
    if int(adr[k]) != int(pre["contact_efc_address_out"][conid, k]):
      bad.append(f"efc_address[{conid},{k}] (beyond the contact's rows) changed to {int(adr[k])}")
  return (not bad), "; ".join(bad) or "addresses agree with the reference"


def unit_contact_init(elliptic, is_sparse, newton, flg_adhesion, U):
  def run(ctx):
    from mujoco_warp._src import constraint

    k = constraint._efc_contact_init(_cone(elliptic), is_sparse, newton, flg_adhesion)
    loc = f"mujoco_warp._src.constraint:_efc_contact_init(types.ConeType({int(_cone(elliptic))}), {is_sparse}, {newton}, {flg_adhesion})"
    ctx.encode(k)
    maxdim = (U if elliptic else (U // 2 + 1))
    ctx.bound(unroll=U, max_condim=maxdim, note=f"rows per contact <= {U}: condim <= {maxdim}")
    ctx.assume("thread's own array accesses are in bounds (C17)", "loop trip counts <= unroll bound", f"1 <= condim <= {maxdim}", "floats are exact reals")
    njmax, nnzmax = z3.Int("njmax_in"), z3.Int("njmax_nnz_in")
    kt = lib.kernel_thread(k, scalars={"njmax_in": njmax, "njmax_nnz_in": nnzmax}, unroll=U, cap=max(6, U))
    R = rf.SymReader(kt, U)
    conid = kt.tid
    in_range, ctype, act, pos = rf.contact_active(R, conid, flg_adhesion)
    A = And(in_range, ctype, act)
    condim = kt.pre("condim_in", conid)
    ndim = rf.contact_ndim(elliptic, condim)
    w = kt.pre("worldid_in", conid)
    e0, n = kt.pre("nefc_out", w), kt.atomic_total("nefc_out", w)
    bg = kt.bg + [njmax >= 0, nnzmax >= 0, e0 >= 0, condim >= 1, condim <= maxdim]
    sess = ctx.session(bg)
    ctx.reach(sess, "twin:active-contact", And(A, cmp("<", arith("+", e0, 1), njmax)))
    env = {"elliptic": elliptic, "adhesion": flg_adhesion, "U": U}
    rp = lambda nm: lib.make_replay(ctx, kt, loc, nm, "goal", goal="checks.c05:goal_contact_init", env=env)
    names = {"conid": conid, "condim": condim, "nefc0": e0, "njmax": njmax, "world": w}
    tag = f"_efc_contact_init({'elliptic' if elliptic else 'pyramidal'}, sparse={is_sparse}, adhesion={flg_adhesion})"
    ctx.prove(sess, "count", cmp("==", n, ite(A, ndim, 0)), True, names=names, replay=rp("count"), desc=f"{tag}: nefc does not advance by the number of rows of the contact (condim / 2*(condim-1)), or advances for an inactive contact")
    wr = Or(*[a.guard for a in kt.it.accesses if a.kind.startswith(("W", "A"))])
    ctx.prove(sess, "inactive-writes-nothing", Not(wr), Not(A), names=names, replay=rp("inactive"), desc=f"{tag}: a contact outside nacon / not a constraint contact / outside the margin writes to Data")
    kk = z3.Int("k")
    adr = kt.post("contact_efc_address_out", conid, kk)
    row = arith("+", e0, kk)
    inrow = And(A, kk >= 0, cmp("<", kk, ndim), kt.inshape("contact_efc_address_out", conid, kk))
    ctx.prove(sess, "address/value", cmp("==", adr, ite(cmp("<", row, njmax), row, -1)), inrow, names=dict(names, k=kk), replay=rp("address"), desc=f"{tag}: efc_address[c, k] is not nefc0 + k (or -1 beyond njmax)")
    ctx.prove(sess, "address/points-at-own-row", Implies(cmp(">=", adr, 0), cmp("==", kt.post("efc_id_out", w, adr), conid)), inrow, names=dict(names, k=kk), replay=rp("address-id"), desc=f"{tag}: efc_address[c, k] >= 0 but efc.id of that row is not c")
    ctx.prove(sess, "address/beyond-ndim-untouched", Not(kt.written("contact_efc_address_out", conid, kk)), And(kk >= ndim, kt.inshape("contact_efc_address_out", conid, kk)), names=dict(names, k=kk), replay=rp("address-beyond"), desc=f"{tag}: efc_address entries beyond the contact's rows are written")
    if is_sparse:
      a0, nn = kt.pre("efc_nnz_out", w), kt.atomic_total("efc_nnz_out", w)
      fits = And(cmp("<", row, njmax), cmp("<=", arith("+", a0, nn), nnzmax), a0 >= 0)
      nnz, ra = kt.post("efc_J_rownnz_out", w, row), kt.post("efc_J_rowadr_out", w, row)
      ctx.prove(sess, "csr/blocks", And(cmp(">=", nnz, 0), cmp("==", arith("*", nnz, ndim), nn), cmp("==", ra, arith("+", a0, arith("*", kk, nnz)))), And(inrow, fits), names=dict(names, k=kk), replay=rp("csr"), desc=f"{tag}: CSR row k of the contact is not the k-th block of the non-zeros the thread allocated")

  return (f"contact/init/{'elliptic' if elliptic else 'pyramidal'}-{'sparse' if is_sparse else 'dense'}{'-adhesion' if flg_adhesion else ''}", run)


def goal_contact_update(spec, pre, post):
  e = spec["env"]
  R = _spec_reader(spec, pre)
  ell, adh = bool(e["elliptic"]), bool(e["adhesion"])
  exp = rf.expected_contact_update(R, ell, adh, Drow=None)
  bad = []
  if not exp["act"]:
    return True, "thread is inactive in the reference (nothing compared)"
  w, er = int(exp["worldid"]), int(exp["efcid"])
  row = exp["rows"][0]
  flags = int(R.scalar("opt_disableflags"))
  ts = float(pre["opt_timestep"][w % pre["opt_timestep"].shape[0]])
  vel = float(pre["efc_Jqvel_in"][w, er])
  full = rf.ref_row((flags & rf.REFSAFE_BIT) == 0, ts, row["pos_aref"], row["pos_imp"], row["invweight"], row["solref"], row["solimp"], row["margin"], vel, 0.0, row["type"], row["id"])
  if adh:
    exp2 = rf.expected_contact_update(R, ell, adh, Drow=full["D"])
    full["aref"] = full["aref"] + exp2["rows"][0]["aref_extra"]
  for f in e["fields"]:
    got = post[f"efc_{f}_out"][w, er]
    if not lib.approx(got, full[f], rtol=5e-3, atol=1e-4):
      bad.append(f"contact {R.tid[0]} dim {R.tid[1]} row {er}: efc.{f} = {got} vs MuJoCo reference {full[f]}")
  return (not bad), "; ".join(bad) or "row agrees with the reference"


def unit_contact_update(elliptic, flg_adhesion):
  def run(ctx):
    from mujoco_warp._src import constraint

    rows = []
    k = constraint._efc_contact_update(_cone(elliptic), flg_adhesion)
    loc = f"mujoco_warp._src.constraint:_efc_contact_update(types.ConeType({int(_cone(elliptic))}), {flg_adhesion})"
    ctx.encode(k, constraint._efc_row)
    ctx.bound(max_condim=6, note="dimid symbolic, condim in 1..6")
    ctx.assume(
      "thread's own array accesses are in bounds (C17)",
      "floats are exact reals",
      "`_efc_row` is replaced by its recording contract",
      "1 <= condim <= 6; friction coefficients > 0 (contact_params clamps to MJ_MINMU)",
      "contact.efc_address is what _efc_contact_init wrote (>= 0 only for assembled rows)",
      "D of friction rows: mujoco_warp scales diagApprox before the max(mjMINVAL, .) clamp, MuJoCo scales R after it; equal whenever the clamp does not engage (R >= mjMINVAL), which is assumed",
    )
    kt = lib.kernel_thread(k, unroll=3, cap=8, interp_kw={"summaries": {"_efc_row": row_summary(rows)}})
    R = rf.SymReader(kt, 3)
    conid, dimid = kt.tid
    if len(rows) != 1:
      ctx.error(f"_efc_contact_update: {len(rows)} _efc_row call sites")
      return
    g, a = rows[0]
    exp = rf.expected_contact_update(R, elliptic, flg_adhesion, Drow=a["D!"])
    row = exp["rows"][0]
    condim = kt.pre("condim_in", conid)
    fri = R.rdv("friction_in", conid)
    bg = kt.bg + [condim >= 1, condim <= 6] + [f > 0 for f in fri]
    sess = ctx.session(bg)
    act = exp["act"]
    ctx.reach(sess, "twin:active-row", act)
    tag = f"_efc_contact_update({'elliptic' if elliptic else 'pyramidal'}, adhesion={flg_adhesion})"
    names = {"conid": conid, "dimid": dimid, "condim": condim}
    env = {"elliptic": elliptic, "adhesion": flg_adhesion}
    # well-conditioned witnesses for replays (see robust_replay): regular solver parameters, moderate magnitudes
    ts = kt.pre("opt_timestep", arith("%", exp["worldid"], kt.cell("opt_timestep").shape[0]))
    isq = kt.pre("opt_impratio_invsqrt", arith("%", exp["worldid"], kt.cell("opt_impratio_invsqrt").shape[0]))
    sr_, si_, srf_ = R.rdv("solref_in", conid), R.rdv("solimp_in", conid), R.rdv("solreffriction_in", conid)
    g1_, g2_ = kt.pre("geom_in", conid, k=0), kt.pre("geom_in", conid, k=1)
    wmb = arith("%", exp["worldid"], kt.cell("body_invweight0").shape[0])
    iws = [kt.pre("body_invweight0", wmb, kt.pre("geom_bodyid", gg), k=0) for gg in (g1_, g2_)]
    posv = arith("-", kt.pre("dist_in", conid), kt.pre("includemargin_in", conid))
    nice = And(
      ts >= 0.001, ts <= 0.01, isq >= 0.5, isq <= 1.0, sr_[0] >= 0.01, sr_[0] <= 0.05, sr_[1] >= 0.5, sr_[1] <= 1.0,
      si_[0] >= 0.5, si_[0] <= si_[1], si_[1] <= 0.99, si_[2] >= 0.01, si_[3] >= 0.1, si_[3] <= 0.9, si_[4] == 1.0,
      *[And(x >= 0.3, x <= 2.0) for x in fri], *[And(x >= 0.3, x <= 3.0) for x in iws], posv <= -0.001, posv >= -0.05,
      kt.pre("includemargin_in", conid) >= 0.0, kt.pre("includemargin_in", conid) <= 0.05, *[And(x >= 0.02, x <= 1.0) for x in srf_],
    )

    def wit(x, y):
      if (is_sym(x) and x.sort() == z3.RealSort()) or (is_sym(y) and y.sort() == z3.RealSort()):
        d = arith("-", x, y)
        return And(nice, Or(cmp(">=", d, 0.05), cmp("<=", d, -0.05)))
      return nice

    base_rp = lambda nm, fields: lib.make_replay(ctx, kt, loc, nm, "goal", goal="checks.c05:goal_contact_update", env=dict(env, fields=fields))
    rp = lambda nm, fields: base_rp(nm, fields)
    allf = ["type", "id", "pos", "margin", "D", "aref", "vel"]
    ctx.prove(sess, "emitted-iff-active", g == core.zbool(act), True, names=names, replay=rp("emitted", allf), desc=f"{tag}: a row is assembled although the contact dimension has no address / is beyond the cone's rows, or an addressed row is skipped")
    wr = Or(*[x.guard for x in kt.it.accesses if x.kind.startswith(("W", "A"))])
    ctx.prove(sess, "inactive-writes-nothing", Not(wr), Not(act), names=names, replay=rp("inactive", allf), desc=f"{tag}: thread without an assembled row writes to Data")
    ctx.prove(sess, "row/efcid+world", And(cmp("==", a["efcid"], exp["efcid"]), cmp("==", a["worldid"], exp["worldid"])), act, names=names, replay=rp("where", allf), desc=f"{tag}: row written to another (world, row) than contact.efc_address / contact.worldid")
    for f, flds in (("pos_aref", ["pos", "aref"]), ("pos_imp", ["D", "aref"]), ("invweight", ["D"]), ("type", ["type"]), ("id", ["id"]), ("frictionloss", ["D"])):
      gl = cmp("==", a[f], row[f])
      ctx.prove(sess, f"row/{f}", gl, act, names=names, replay=robust_replay(ctx, bg, core.zbool(gl), act, wit(a[f], row[f]), base_rp(f, flds)), desc=f"{tag}: {f} handed to _efc_row differs from MuJoCo's contact row")
    if elliptic:
      ctx.prove(sess, "row/margin(normal)", cmp("==", a["margin"], row["margin"]), And(act, Not(row["friction_row"])), names=names, replay=rp("margin", ["margin", "pos"]), desc=f"{tag}: wrong margin on the normal row")
      ctx.reach(sess, "twin:elliptic-friction-row-with-margin", And(act, row["friction_row"], cmp("!=", row["margin_mjw"], 0.0)))
      ctx.prove(sess, "row/margin(elliptic-friction)", cmp("==", a["margin"], row["margin"]), And(act, row["friction_row"]), names=names, replay=rp("margin-friction", ["margin", "pos"]), desc=f"{tag}: friction rows of an elliptic contact get efc.pos = efc.margin = includemargin; MuJoCo stores 0 and 0")
    else:
      ctx.prove(sess, "row/margin", cmp("==", a["margin"], row["margin"]), act, names=names, replay=rp("margin", ["margin", "pos"]), desc=f"{tag}: wrong margin")
    gl = And(*[cmp("==", x, y) for x, y in zip(a["solref"].c, row["solref"])])
    wn = And(nice, Or(*[Or(cmp(">=", arith("-", x, y), 0.02), cmp("<=", arith("-", x, y), -0.02)) for x, y in zip(a["solref"].c, row["solref"])]))
    ctx.prove(sess, "row/solref", gl, act, names=names, replay=robust_replay(ctx, bg, core.zbool(gl), act, wn, base_rp("solref", ["D", "aref"])), desc=f"{tag}: wrong solref (solreffriction applies to the friction rows of elliptic contacts when non-zero)")
    gl = And(*[cmp("==", x, y) for x, y in zip(a["solimp"].c, row["solimp"])])
    wn = And(nice, Or(*[Or(cmp(">=", arith("-", x, y), 0.02), cmp("<=", arith("-", x, y), -0.02)) for x, y in zip(a["solimp"].c, row["solimp"])]))
    ctx.prove(sess, "row/solimp", gl, act, names=names, replay=robust_replay(ctx, bg, core.zbool(gl), act, wn, base_rp("solimp", ["D", "aref"])), desc=f"{tag}: wrong solimp")
    ctx.prove(sess, "row/vel", cmp("==", a["vel"], exp["vel"]), act, names=names, replay=rp("vel", ["vel"]), desc=f"{tag}: efc.vel is not the J*qvel the Jacobian kernel stored for this row")
    wm = arith("%", exp["worldid"], kt.cell("opt_timestep").shape[0])
    ctx.prove(sess, "row/timestep+flags", And(cmp("==", a["timestep"], kt.pre("opt_timestep", wm)), cmp("==", a["opt_disableflags"], kt.args["opt_disableflags"])), act, names=names, replay=rp("ts", ["aref"]), desc=f"{tag}: wrong timestep / disable flags")
    w, er = exp["worldid"], exp["efcid"]
    for f in ("type", "id", "pos", "margin", "vel", "frictionloss", "D"):
      src = {"type": a["type"], "id": a["id"], "pos": arith("+", a["pos_aref"], a["margin"]), "margin": a["margin"], "vel": a["vel"], "frictionloss": a["frictionloss"], "D": a["D!"]}[f]
      ctx.prove(sess, f"row/final/{f}", cmp("==", kt.post(f"efc_{f}_out", w, er), src), act, names=names, replay=rp("final", allf), desc=f"{tag}: efc.{f} is modified after _efc_row")
    s2 = ctx.session(bg, tactic="qfnra-nlsat") if False else sess
    ctx.prove(s2, "row/final/aref", cmp("==", kt.post("efc_aref_out", w, er), arith("+", a["aref!"], row["aref_extra"])), And(act, cmp(">", a["D!"], 0.0)) if flg_adhesion else act, names=names, replay=rp("aref", ["aref"]), desc=f"{tag}: efc.aref differs from the reference acceleration (+ adhesion*R shared by the rows of the contact)")

  return (f"contact/update/{'elliptic' if elliptic else 'pyramidal'}{'-adhesion' if flg_adhesion else ''}", run)


def jac_summaries():
  """contracts of support.jac_dof / jac_dot_dof on the code side: the SAME functions the reference uses (ref_c05.sym_jac)"""

  def jac_dof(it, fr, args):
    parent, rootid, dof_bodyid, isanc, com, cdof, point, bodyid, dofid, worldid = args
    g = it.active(fr)
    # the accesses of the real function (so that its in-bounds conditions are part of the background / of the replayed models)
    ia = it.load(isanc, (bodyid, dofid), g, "jac_dof(contract)")
    g2 = And(g, cmp("!=", ia, 0))
    root = it.load(rootid, (bodyid,), g2, "jac_dof(contract)")
    it.load(com, (worldid, root), g2, "jac_dof(contract)")
    it.load(cdof, (worldid, dofid), g2, "jac_dof(contract)")
    jp, jr = rf.sym_jac(ia, root, point.c, dofid, worldid)
    return (core.Vec(jp, (3,), "f"), core.Vec(jr, (3,), "f"))

  def jac_dot_dof(it, fr, args):
    parent, rootid, jnt_type, jnt_dofadr, dof_bodyid, dof_jntid, isanc, com, cdof, cvel, cdof_dot, point, bodyid, dofid, worldid = args
    g = it.active(fr)
    ia = it.load(isanc, (bodyid, dofid), g, "jac_dot_dof(contract)")
    g2 = And(g, cmp("!=", ia, 0))
    root = it.load(rootid, (bodyid,), g2, "jac_dot_dof(contract)")
    it.load(com, (worldid, root), g2, "jac_dot_dof(contract)")
    cvv = it.load(cvel, (worldid, bodyid), g2, "jac_dot_dof(contract)")
    it.load(cdof, (worldid, dofid), g2, "jac_dot_dof(contract)")
    it.load(cdof_dot, (worldid, dofid), g2, "jac_dot_dof(contract)")
    jid = it.load(dof_jntid, (dofid,), g2, "jac_dot_dof(contract)")
    it.load(jnt_type, (jid,), g2, "jac_dot_dof(contract)")
    it.load(jnt_dofadr, (jid,), g2, "jac_dot_dof(contract)")
    db = it.load(dof_bodyid, (dofid,), g2, "jac_dot_dof(contract)")
    it.load(cvel, (worldid, db), g2, "jac_dot_dof(contract)")
    jp, jr = rf.sym_jacdot(ia, root, cvv.c, point.c, dofid, worldid)
    return (core.Vec(jp, (3,), "f"), core.Vec(jr, (3,), "f"))

  return {"jac_dof": jac_dof, "jac_dot_dof": jac_dot_dof}


TREE = {"_equality_connect": rf.expected_equality_connect, "_equality_weld": rf.expected_equality_weld}


def ball_summaries(rec):
  """math.quat_to_vel / normalize_with_norm as shared uninterpreted functions (the axis-angle extraction is library math;
  what is decided: which qpos slots, range / margin arithmetic, sign and placement of the Jacobian, row bookkeeping)"""
  Rs = z3.RealSort()

  def quat_to_vel(it, fr, args):
    (q,) = args
    rec["qarg"] = list(q.c)
    zs = [core.to_z3(x, "real") for x in q.c]
    return core.Vec([z3.Function(f"QUAT2VEL{i}", Rs, Rs, Rs, Rs, Rs)(*zs) for i in range(3)], (3,), "f")

  def normalize_with_norm(it, fr, args):
    (x,) = args
    zs = [core.to_z3(v, "real") for v in x.c]
    rec["axis"] = [z3.Function(f"NORMALIZED{i}", Rs, Rs, Rs, Rs)(*zs) for i in range(3)]
    rec["angle"] = z3.Function("NORM", Rs, Rs, Rs, Rs)(*zs)
    return (core.Vec(rec["axis"], (3,), "f"), rec["angle"])

  return {"quat_to_vel": quat_to_vel, "normalize_with_norm": normalize_with_norm}


def unit_ball(spec, U):
  def run(ctx):
    from mujoco_warp._src import constraint

    rec = {}
    B = Builder(ctx, "_limit_ball", spec, U, summaries=ball_summaries(rec))
    ctx.encode(constraint._efc_row)
    ctx.bound(unroll=U, note=f"nv <= {U}")
    ctx.assume("thread's own array accesses are in bounds (C17)", "loop trip counts <= unroll bound", "rows fit (overflow is C16)", "floats are exact reals", "`_efc_row` replaced by its recording contract", "math.quat_to_vel and math.normalize_with_norm are shared uninterpreted functions (axis-angle of a unit quaternion: library math, not decided here)")
    kt, w = B.kt, B.w
    R = rf.SymReader(kt, U)
    exp = rf.expected_limit_ball(R, (rec["axis"], rec["angle"]))
    check_rows(B, exp, w, kt.args["nv"])
    # the quaternion handed to quat_to_vel is the normalised joint quaternion qpos[qposadr .. qposadr+3]
    j = kt.pre("jnt_limited_ball_adr", kt.tid[1])
    qa = kt.pre("jnt_qposadr", j)
    q = [kt.pre("qpos_in", w, arith("+", qa, i)) for i in range(4)]
    S = rf.dot(q, q)
    side = [core.zbool(x) for x in kt.it.assumes]
    for i in range(4):
      qi = rec["qarg"][i]
      prove_hard(ctx, side, f"quat-arg/{i}", And(cmp("==", arith("*", arith("*", qi, qi), S), arith("*", q[i], q[i])), cmp(">=", arith("*", qi, q[i]), 0.0)), cmp(">", S, 0.0), None, True, names={"w": w}, replay=B.replay("quat", "rows"), desc="_limit_ball: the quaternion converted to axis-angle is not the normalised joint quaternion qpos[qposadr:qposadr+4]")

  return (f"rows/_limit_ball/{'sparse' if spec[0] else 'dense'}-{'newton' if spec[1] else 'cg'}", run)


def unit_rows(builder, spec, U, only_rows=None):
  def run(ctx):
    from mujoco_warp._src import constraint, support

    tree = builder in TREE
    B = Builder(ctx, builder, spec, U, summaries=jac_summaries() if tree else None)
    if tree:
      ctx.assume("support.jac_dof / jac_dot_dof are replaced by their contract: zero unless body_isdofancestor[body, dof], else an uninterpreted function of (point, tree root, [cvel of the body], dof, world); jac_dof's definition is decided by C22")
      ctx.encode(support.jac_dof, support.jac_dot_dof)
    ctx.encode(constraint._efc_row)
    ctx.bound(unroll=U, shape_cap=6, note=f"nv, tendon row length and loops <= {U}; array dims <= 6")
    ctx.assume("thread's own array accesses are in bounds (C17)", "loop trip counts <= unroll bound", "rows fit: nefc0 + nrows <= njmax and (sparse) nnz0 + nnz <= njmax_nnz (overflow is C16)", "floats are exact reals", "`_efc_row` is replaced by its recording contract (its body is decided by the efc_row units)")
    R = rf.SymReader(B.kt, U)
    exp = TREE[builder](R, spec[0]) if tree else SIMPLE[builder](R)
    check_rows(B, exp, B.w, B.kt.args["nv"], only_rows=only_rows, common=only_rows is None or 0 in only_rows)

  sfx = "" if only_rows is None else "/row" + "+".join(map(str, only_rows))
  return (f"rows/{builder}/{'sparse' if spec[0] else 'dense'}-{'newton' if spec[1] else 'cg'}{sfx}", run)


# ------------------------------------------------------------------------------------------------ units


def unit_refcheck(ctx):
  bad, n = rf.validate_rows()
  ctx.notes.append(f"ref_row validated against mujoco on {n} rows (joint equality / dof friction / joint limit; regular and degenerate solref/solimp, refsafe on/off)")
  for b in bad[:5]:
    ctx.error("reference model disagrees with the mujoco library: " + b)
  for fn in (rf.validate_builders, rf.validate_contacts):
    bad, n = fn()
    ctx.notes.append(f"{fn.__name__}: {n} rows compared with mujoco")
    for b in bad[:5]:
      ctx.error("reference model disagrees with the mujoco library: " + b)
  # a trivial solver query so that the unit is visible in the evidence
  s = ctx.session([])
  ctx.reach(s, "twin:reference-validated", len(bad) == 0)


def unit_efc_row(refsafe_on):
  def run(ctx):
    from checks import kernels_c05 as K
    from mujoco_warp._src import constraint

    f = constraint._efc_row
    k = K.efc_row_wrap
    ctx.encode(f)
    flags = 0 if refsafe_on else rf.REFSAFE_BIT
    ctx.bound(opt_disableflags=flags, note="REFSAFE bit concrete (both values are units); all float inputs symbolic reals")
    ctx.assume(
      "floats are exact reals; pow is uninterpreted (Ackermannised) with true facts: pow(a,0)=1, pow(a,p)=a*pow(a,p-1), pow(a,p-1)>0 for a in {mid,1-mid}; base-monotone on [0,mid] and [0,1-mid]",
      "timestep > 0",
      "regular queries: solref not of mixed sign, sanitised dmin <= dmax, solimp width > mjMINVAL (the other regions are the degenerate/* queries)",
      "dmax^2*timeconst^2*dampratio^2 >= mjMINVAL and dmax*|solref[0]| >= mjMINVAL (MuJoCo's division guards in K and B do not engage; mujoco_warp has no such guard)",
    )
    args = kh.make_args(k, shapes={l: [1, 1] for l in ROW_OUTS}, scalars={"opt_disableflags": flags})
    replay.snapshot_initial(args)
    fargs = dict(args)
    fargs["worldid"] = 0
    fargs["efcid"] = 0
    it, _ = kh.run(f, fargs, unroll=2)
    kt = lib.KT(k, args, it, z3.Int("tid0"), [core.zbool(a) for a in it.assumes], [])
    A = args
    solref, solimp = A["solref"].c, A["solimp"].c
    ref = rf.ref_row(refsafe_on, A["timestep"], A["pos_aref"], A["pos_imp"], A["invweight"], solref, solimp, A["margin"], A["vel"], A["frictionloss"], A["type"], A["id"])
    reg = rf.regular_params(solref, solimp, A["timestep"], refsafe_on)
    x = rf.div(rf.fabs(A["pos_imp"]), ref["si"][2])
    bg = kt.bg + pow_facts(ref["si"], x) + [A["timestep"] > 0]
    names = {l: A[l] for l in ("timestep", "pos_aref", "pos_imp", "invweight", "margin", "vel")}
    names.update({f"solref{i}": solref[i] for i in range(2)})
    names.update({f"solimp{i}": solimp[i] for i in range(5)})
    # integer / copied fields: plain session
    s0 = ctx.session(bg)
    ctx.reach(s0, "twin:regular-region", And(*reg.values()))
    for fld in ("type", "id", "pos", "margin", "vel", "frictionloss"):
      rp = lib.make_replay(ctx, kt, "checks.kernels_c05:efc_row_wrap", fld, "goal", goal="checks.c05:goal_efc_row", env={"fields": [fld]})
      ctx.prove(s0, fld, kt.post(fld + "_out", 0, 0) == core.to_z3(ref[fld], "int" if fld in ("type", "id") else "real"), True, names=names, replay=rp, desc=f"_efc_row writes efc.{fld} different from MuJoCo's row")
    # impedance-derived fields: nonlinear reals, pow Ackermannised, nlsat
    goalD = kt.post("D_out", 0, 0) == core.to_z3(ref["D"], "real")
    goalA = kt.post("aref_out", 0, 0) == core.to_z3(ref["aref"], "real")
    regions = {
      "regular": And(*reg.values()),
      "degenerate/solimp-width<=mjMINVAL": And(reg["not_mixed"], reg["ordered"], Not(reg["width"]), reg["kb_noclamp"]),
      "degenerate/solref-mixed-sign": And(Not(reg["not_mixed"]), reg["ordered"], reg["width"], reg["kb_noclamp"]),
      "degenerate/solimp-dmin>dmax": And(reg["not_mixed"], Not(reg["ordered"]), reg["width"], reg["kb_noclamp"]),
    }
    terms = [core.zbool(b) for b in bg] + [core.zbool(goalD), core.zbool(goalA)] + [core.zbool(r) for r in regions.values()]
    out, cong, apps = ackermannize(terms)
    nb = len(bg)
    s1 = ctx.session(out[:nb] + cong, tactic="qfnra-nlsat")
    gD, gA = out[nb], out[nb + 1]
    rg = dict(zip(regions.keys(), out[nb + 2 :]))
    ctx.bound(pow_applications=len(apps))
    ctx.reach(s1, "twin:regular-region(nlsat)", rg["regular"])
    rpD = lib.make_replay(ctx, kt, "checks.kernels_c05:efc_row_wrap", "D", "goal", goal="checks.c05:goal_efc_row", env={"fields": ["D"]})
    rpA = lib.make_replay(ctx, kt, "checks.kernels_c05:efc_row_wrap", "aref", "goal", goal="checks.c05:goal_efc_row", env={"fields": ["aref"]})
    rpDA = lib.make_replay(ctx, kt, "checks.kernels_c05:efc_row_wrap", "D+aref", "goal", goal="checks.c05:goal_efc_row", env={"fields": ["D", "aref"]})
    ctx.prove(s1, "regular/D", gD, rg["regular"], names=names, replay=rpD, desc="_efc_row: efc.D differs from 1/max(mjMINVAL, (1-imp)*diagApprox/imp) with MuJoCo's impedance")
    ctx.prove(s1, "regular/aref", gA, rg["regular"], names=names, replay=rpA, desc="_efc_row: efc.aref differs from -B*vel - K*imp*(pos-margin) with MuJoCo's K, B, imp")
    what = {
      "degenerate/solimp-width<=mjMINVAL": "solimp width <= mjMINVAL with dmin != dmax: MuJoCo uses the flat impedance (dmin+dmax)/2, mujoco_warp clamps the width to mjMINVAL and saturates to dmax (or dmin at pos == 0)",
      "degenerate/solref-mixed-sign": "solref of mixed sign: MuJoCo replaces it by the default (0.02, 1); mujoco_warp applies the standard formula to one term and the direct formula to the other",
      "degenerate/solimp-dmin>dmax": "solimp dmin > dmax: MuJoCo interpolates dmin + y*(dmax-dmin) without clamping; wp.clamp(imp, dmin, dmax) collapses to dmax",
    }
    for rn, txt in what.items():
      ctx.reach(s1, f"twin:{rn}", rg[rn])
      ctx.prove(s1, rn, z3.And(gD, gA), rg[rn], names=names, replay=rpDA, desc="_efc_row D/aref differ from MuJoCo: " + txt)

  return (f"efc_row/refsafe-{'on' if refsafe_on else 'off'}", run)


# ------------------------------------------------------------------------------------------------ jac_dot_dof == mj_jacDot


def goal_jacdot(spec, pre, post):
  import numpy as np

  g = lambda l: _scal(spec, l)
  b, dof, w = int(g("bodyid")), int(g("dofid")), int(g("worldid"))
  point = [float(np.float32(x)) for x in g("point")]
  f = lambda v: [float(x) for x in v]
  isanc = int(pre["body_isdofancestor"][b, dof])
  if not isanc:
    rp, rr = [0.0] * 3, [0.0] * 3
  else:
    j = int(pre["dof_jntid"][dof])
    rp, rr, _ = rf.ref_jacdot_col(isanc, int(pre["jnt_type"][j]), dof, int(pre["jnt_dofadr"][j]), f(pre["cdof_in"][w, dof]), f(pre["cdof_dot_in"][w, dof]), f(pre["cvel_in"][w, b]), f(pre["cvel_in"][w, int(pre["dof_bodyid"][dof])]), f(pre["subtree_com_in"][w, int(pre["body_rootid"][b])]), point)
  bad = []
  for i in range(3):
    if not lib.approx(post["jacp_out"][0][i], rp[i], rtol=2e-3, atol=1e-4):
      bad.append(f"jacp[{i}] = {post['jacp_out'][0][i]} vs mj_jacDot reference {rp[i]}")
    if not lib.approx(post["jacr_out"][0][i], rr[i], rtol=2e-3, atol=1e-4):
      bad.append(f"jacr[{i}] = {post['jacr_out'][0][i]} vs mj_jacDot reference {rr[i]}")
  return (not bad), "; ".join(bad) or "column agrees with the reference"


def unit_jac_dot_dof(ctx):
  """discharges the jac_dot_dof CONTRACT used by the connect / weld units: the real support.jac_dot_dof (through a
  forwarding wrapper kernel) == column of MuJoCo's mj_jacDot, all arrays / indices symbolic"""
  from checks import kernels_c05 as K
  from mujoco_warp._src import support

  bad, n, nq = rf.validate_jacdot()
  ctx.notes.append(f"mj_jacDot reference validated against mujoco.mj_jacDot on {n} (body, dof) columns, {nq} of them quaternion dofs of a strict ancestor whose cvel differs from the queried body's")
  for b in bad[:5]:
    ctx.error("reference model disagrees with the mujoco library: " + b)
  k = K.jac_dot_dof_wrap
  loc = "checks.kernels_c05:jac_dot_dof_wrap"
  ctx.encode(support.jac_dot_dof)
  ctx.bound(shape_cap=6, note="one call; body, dof, world, point and every array (tree, joint types, cdof, cdof_dot, cvel, subtree_com) symbolic")
  ctx.assume("the call's own array accesses are in bounds (C17)", "floats are exact reals", "body_isdofancestor[b, d] != 0 iff dof d belongs to body b or one of its ancestors (model invariant; the reference is validated with MuJoCo's own tree)")
  kt = lib.kernel_thread(k, unroll=2)
  A = kt.args
  b, dof, w = A["bodyid"], A["dofid"], A["worldid"]
  point = A["point"].c
  isanc = kt.pre("body_isdofancestor", b, dof)
  root = kt.pre("body_rootid", b)
  jid = kt.pre("dof_jntid", dof)
  jt, jadr = kt.pre("jnt_type", jid), kt.pre("jnt_dofadr", jid)
  db = kt.pre("dof_bodyid", dof)
  V = lambda lab, *idx: [kt.pre(lab, *idx, k=i) for i in range(kt.cell(lab).ncomp)]
  rp, rr, isq = rf.ref_jacdot_col(isanc, jt, dof, jadr, V("cdof_in", w, dof), V("cdof_dot_in", w, dof), V("cvel_in", w, b), V("cvel_in", w, db), V("subtree_com_in", w, root), point)
  # every array the mj_jacDot column reads is large enough (model / data shapes; makes counterexamples complete inputs)
  ctx.assume("dof_bodyid, dof_jntid, jnt_type, jnt_dofadr, cdof, cdof_dot, cvel, subtree_com cover the dof / its body / the tree root")
  inb = And(kt.inshape("dof_bodyid", dof), kt.inshape("cvel_in", w, db), kt.inshape("cvel_in", w, b), kt.inshape("dof_jntid", dof), kt.inshape("jnt_type", jid), kt.inshape("jnt_dofadr", jid), kt.inshape("cdof_in", w, dof), kt.inshape("cdof_dot_in", w, dof), kt.inshape("body_rootid", b), kt.inshape("subtree_com_in", w, root))
  sess = ctx.session(kt.bg + [core.zbool(Implies(isanc != 0, inb))])
  anc = isanc != 0
  # the index discipline is symbolic: the dof's body and the queried body (and their cvel rows) may differ
  ctx.reach(sess, "twin:quaternion-dof-of-another-body", And(anc, isq, db != b, Or(*[x != y for x, y in zip(V("cvel_in", w, b), V("cvel_in", w, db))])))
  for nm, cond in (("free-translational", And(jt == rf.mjJNT_FREE, dof < jadr + 3)), ("free-rotational", And(jt == rf.mjJNT_FREE, dof >= jadr + 3)), ("ball", jt == rf.mjJNT_BALL), ("hinge", jt == rf.mjJNT_HINGE), ("slide", jt == rf.mjJNT_SLIDE), ("not-an-ancestor", Not(anc))):
    ctx.reach(sess, f"twin:{nm}", And(anc, cond) if nm != "not-an-ancestor" else cond)
  names = {"body": b, "dof": dof, "world": w, "dof_body": db, "jnt_type": jt, "jnt_dofadr": jadr, "isancestor": isanc}
  rp_ = lib.make_replay(ctx, kt, loc, "jacdot", "goal", goal="checks.c05:goal_jacdot", env={"randomize_floats": 2})
  bgj = kt.bg + [core.zbool(Implies(isanc != 0, inb))]
  for i in range(3):
    prove_hard(ctx, bgj, f"jacp/{i}", kt.post("jacp_out", 0, k=i) == core.to_z3(rp[i], "real"), True, None, True, names=names, replay=rp_, desc=f"jac_dot_dof: translational entry {i} differs from the mj_jacDot column cdof_dot_lin + cdof_dot_ang x offset + cdof_ang x pvel_lin (cdof_dot of quaternion dofs = crossMotion(cvel[dof's body], cdof))")
    prove_hard(ctx, bgj, f"jacr/{i}", kt.post("jacr_out", 0, k=i) == core.to_z3(rr[i], "real"), True, None, True, names=names, replay=rp_, desc=f"jac_dot_dof: rotational entry {i} differs from cdof_dot_ang of mj_jacDot (0 for a non-ancestor dof)")


def main(tier, seed, only=None):
  units = [("refcheck", unit_refcheck), unit_efc_row(True), unit_efc_row(False), ("jac_dot_dof", unit_jac_dot_dof)]
  specs = [(False, True), (True, True)] + ([(True, False)] if tier == "thorough" else [])
  U = 3  # nv / tendon-row bound (thorough deepens the specialisations, contact dimensions and weld rows instead)
  for b in SIMPLE:
    for sp in specs:
      units.append(unit_rows(b, sp, 2 if b == "_equality_tendon" and (sp[0] or tier == "quick") else U))
  for sp in specs:
    units.append(unit_ball(sp, max(U, 3)))
    # sparse connect / weld: the dof chains of both bodies are enumerated (4^2 chain pairs at bound 2, 8^2 at bound 3)
    UT = 2 if (sp[0] or tier == "quick") else 3
    for r in range(3):
      units.append(unit_rows("_equality_connect", sp, UT if sp[0] else U, only_rows=[r]))
    # weld: quick tier = first translational and first rotational row (the three rows of each block are built by the same
    # unrolled code, differing in the component index); thorough = all six
    for r in (range(6) if tier == "thorough" else (0, 3)):
      if sp[0] and r >= 3:
        continue  # sparse weld rotational rows (chain-pair cases x quaternion algebra) exceed the unit budget: not claimed
      units.append(unit_rows("_equality_weld", sp, UT, only_rows=[r]))
  UC = 6 if tier == "quick" else 10
  for ell in (False, True):
    for adh in (False, True):
      units.append(unit_contact_update(ell, adh))
      for sp in (False, True):
        if adh and sp and tier == "quick":
          continue
        units.append(unit_contact_init(ell, sp, True, adh, UC))
  if only:
    units = [u for u in units if any(o in u[0] for o in only)]
  return report.run_check(PID, units, tier, seed)
