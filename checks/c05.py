"""C05 Constraint assembly agrees with MuJoCo C.

Solver queries over the real row builders of mujoco_warp/_src/constraint.py (one generic thread, K mode, exact reals):
 refcheck    the reference models (checks/ref_c05.py) are validated numerically against the `mujoco` library
 efc_row     `_efc_row` (impedance, D, aref, pos, margin, frictionloss, type, id) == MuJoCo's getsolparam/getimpedance/
             mj_makeImpedance formulas for all inputs (pow uninterpreted + true pow facts); degenerate parameter regions
             are separate queries
 rows/*      every builder: counters advance by the number of rows, each row is handed to `_efc_row` with the reference
             (pos, impedance argument, diagApprox, solref, solimp, margin, vel, frictionloss, type, id) and the Jacobian row
             written (dense / sparse scatter) equals the reference row; inactive constraints add nothing
 contact/*   `_efc_contact_init`: every efc_address >= 0 points at a row of that contact, ndim per cone;
             `_efc_contact_update`: row arguments == MuJoCo's contact rows (pyramidal / elliptic, adhesion)
 dense=sparse relational query between the two specialisations on the same inputs
"""

import z3

from checks import lib
from checks import ref_c05 as rf
from wsym import core, kh, replay, report
from wsym.core import And, Implies, Not, Or, arith, cmp, is_sym, ite

PID = "C05"
ROW_OUTS = ["type_out", "id_out", "pos_out", "margin_out", "D_out", "vel_out", "aref_out", "frictionloss_out"]


# ------------------------------------------------------------------------------------------------ helpers


def ackermannize(terms, name="pow"):
  """replace every application of the uninterpreted `name` by a fresh real + pairwise congruence constraints, so that the
  query is pure nonlinear real arithmetic (decided by nlsat).  Sound and complete for EUF over these applications."""
  seen, vis = {}, set()

  def walk(t):
    if t.get_id() in vis:
      return
    vis.add(t.get_id())
    if z3.is_app(t) and t.decl().kind() == z3.Z3_OP_UNINTERPRETED and t.decl().name() == name and t.num_args() > 0:
      seen[t.get_id()] = t
    for c in t.children():
      walk(c)

  for t in terms:
    walk(t)
  apps = list(seen.values())
  vs = [z3.Real(f"{name}!{i}") for i in range(len(apps))]
  sub = list(zip(apps, vs))
  out = [z3.substitute(t, *sub) if sub else t for t in terms]
  cong = []
  for i in range(len(apps)):
    for j in range(i + 1, len(apps)):
      a, b = apps[i], apps[j]
      same = z3.substitute(z3.And(*[a.arg(k) == b.arg(k) for k in range(a.num_args())]), *sub)
      cong.append(z3.Implies(same, vs[i] == vs[j]))
  return out, cong, apps


def pow_facts(si, x):
  """TRUE facts about real pow on the sanitised domain mid in [1e-4, 0.9999], power >= 1 (instances for the terms of the
  impedance curve).  x = |pos|/width."""
  d0, d1, w, mid, p = si
  P = rf.powf
  pm1 = rf.sub(p, 1.0)
  omm = rf.sub(1.0, mid)
  return [
    P(mid, 0.0) == 1,
    P(omm, 0.0) == 1,
    z3.Implies(pm1 == 0, z3.And(P(mid, pm1) == 1, P(omm, pm1) == 1)),
    P(mid, p) == mid * P(mid, pm1),
    P(omm, p) == omm * P(omm, pm1),
    P(mid, pm1) > 0,
    P(omm, pm1) > 0,
    z3.Implies(z3.And(x >= 0, x <= mid), z3.And(P(x, p) >= 0, P(x, p) <= P(mid, p))),
    z3.Implies(z3.And(x >= mid, x <= 1), z3.And(P(1 - x, p) >= 0, P(1 - x, p) <= P(omm, p))),
  ]


def _scal(spec, label):
  a = spec["args"][label]
  return a["scalar"] if "scalar" in a else a["vec"]


def goal_efc_row(spec, pre, post):
  """replay goal: outputs of the REAL _efc_row vs the float reference on the same inputs"""
  import numpy as np

  g = lambda l: _scal(spec, l)
  flags = int(g("opt_disableflags"))
  f32 = lambda v: float(np.float32(v))
  ref = rf.ref_row(
    (flags & rf.REFSAFE_BIT) == 0, f32(g("timestep")), f32(g("pos_aref")), f32(g("pos_imp")), f32(g("invweight")), [f32(x) for x in g("solref")], [f32(x) for x in g("solimp")], f32(g("margin")), f32(g("vel")), f32(g("frictionloss")), int(g("type")), int(g("id"))
  )
  bad = []
  for f in spec["env"]["fields"]:
    got = post[f + "_out"][0, 0]
    if not lib.approx(got, ref[f], rtol=2e-3, atol=1e-5):
      bad.append(f"{f}: mujoco_warp {got} vs MuJoCo reference {ref[f]}")
  return (not bad), "; ".join(bad) or "all fields agree with the reference"


# ------------------------------------------------------------------------------------------------ row builders (K mode)

ROWIN = ["opt_disableflags", "worldid", "timestep", "efcid", "pos_aref", "pos_imp", "invweight", "solref", "solimp", "margin", "vel", "frictionloss", "type", "id"]
ROWOUT = ["type", "id", "pos", "margin", "D", "vel", "aref", "frictionloss"]
SIMPLE = {
  "_equality_joint": rf.expected_equality_joint,
  "_equality_tendon": rf.expected_equality_tendon,
  "_friction_dof": rf.expected_friction_dof,
  "_friction_tendon": rf.expected_friction_tendon,
  "_limit_slide_hinge": rf.expected_limit_slide_hinge,
  "_limit_tendon": rf.expected_limit_tendon,
}


def row_summary(rows):
  """contract for `_efc_row` inside the builders: records the call (guard, arguments) and performs the eight stores with
  the copied fields and two fresh symbols D!row<j>, aref!row<j> (what _efc_row computes from the arguments is the efc_row
  unit).  Later read-modify-writes of the builder (aref -= Jdotv, adhesion) therefore stay visible."""

  def summ(it, fr, args):
    g = it.active(fr)
    a = dict(zip(ROWIN + [o + "_out" for o in ROWOUT], args))
    j = len(rows)
    a["D!"], a["aref!"] = z3.Real(f"D!row{j}"), z3.Real(f"aref!row{j}")
    rows.append((g, a))
    vals = {"type": a["type"], "id": a["id"], "pos": arith("+", a["pos_aref"], a["margin"]), "margin": a["margin"], "D": a["D!"], "vel": a["vel"], "aref": a["aref!"], "frictionloss": a["frictionloss"]}
    for o in ROWOUT:
      it.store(a[o + "_out"], (a["worldid"], a["efcid"]), vals[o], g, "_efc_row(contract)")
    return None

  return summ


class Builder:
  """one generic thread of a row builder, with `_efc_row` replaced by its recording contract"""

  def __init__(self, ctx, builder, spec, unroll, summaries=None, scalars=None, shapes=None):
    from mujoco_warp._src import constraint

    self.ctx, self.name, self.spec, self.U = ctx, builder, spec, unroll
    self.is_sparse = spec[0]
    self.k = getattr(constraint, builder)(*spec)
    self.loc = f"mujoco_warp._src.constraint:{builder}({', '.join(repr(x) for x in spec)})"
    self.rows = []
    summ = {"_efc_row": row_summary(self.rows)}
    summ.update(summaries or {})
    self.njmax, self.nnzmax = z3.Int("njmax_in"), z3.Int("njmax_nnz_in")
    sc = {"njmax_in": self.njmax, "njmax_nnz_in": self.nnzmax}
    sc.update(scalars or {})
    self.kt = lib.kernel_thread(self.k, scalars=sc, shapes=shapes, unroll=unroll, interp_kw={"summaries": summ})
    kt = self.kt
    self.w = kt.tid[0] if isinstance(kt.tid, tuple) else None
    ctx.encode(self.k)

  def counters(self, w):
    kt = self.kt
    self.e0, self.n = kt.pre("nefc_out", w), kt.atomic_total("nefc_out", w)
    self.a0, self.nn = kt.pre("efc_nnz_out", w), kt.atomic_total("efc_nnz_out", w)
    return [self.njmax >= 0, self.nnzmax >= 0, self.e0 >= 0, self.a0 >= 0]

  def fits(self, nrows):
    f = cmp("<=", arith("+", self.e0, nrows), self.njmax)
    if self.is_sparse:
      f = And(f, cmp("<=", arith("+", self.a0, self.nn), self.nnzmax))
    return f

  def written_J(self, w, row, c):
    """value of the Jacobian row `row` at column c as left by this thread (dense entry or scatter of the CSR row)"""
    kt = self.kt
    if not self.is_sparse:
      return kt.post("efc_J_out", w, row, c)
    nnz, adr = kt.post("efc_J_rownnz_out", w, row), kt.post("efc_J_rowadr_out", w, row)
    out = 0.0
    for k in range(self.U):
      hit = And(cmp("<", k, nnz), cmp("==", kt.post("efc_J_colind_out", w, 0, arith("+", adr, k)), c))
      out = arith("+", out, ite(hit, kt.post("efc_J_out", w, 0, arith("+", adr, k)), 0.0))
    return out

  def written_Jt(self, w, row, c):
    """the same as (condition, coefficient) contributions"""
    kt = self.kt
    if not self.is_sparse:
      return [(True, kt.post("efc_J_out", w, row, c))]
    nnz, adr = kt.post("efc_J_rownnz_out", w, row), kt.post("efc_J_rowadr_out", w, row)
    return [(And(cmp("<", k, nnz), cmp("==", kt.post("efc_J_colind_out", w, 0, arith("+", adr, k)), c)), kt.post("efc_J_out", w, 0, arith("+", adr, k))) for k in range(self.U)]

  def any_write(self):
    return Or(*[a.guard for a in self.kt.it.accesses if a.kind.startswith(("W", "A"))])

  def replay(self, name, what, extra=None):
    env = {"builder": self.name, "spec": list(self.spec), "what": what, "U": self.U}
    env.update(extra or {})
    return lib.make_replay(self.ctx, self.kt, self.loc, name, "goal", goal="checks.c05:goal_builder", env=env)


def _spec_reader(spec, pre):
  scal = {l: a["scalar"] for l, a in spec["args"].items() if "scalar" in a}
  return rf.NumReader(pre, scal, spec["tid"], U=int(spec["env"].get("U", 8)))


def goal_builder(spec, pre, post):
  """replay goal for row builders: the rows the REAL kernel thread left (all efc fields, Jacobian row, counters) vs the
  MuJoCo reference evaluated in floats on the same input arrays"""
  import numpy as np

  e = spec["env"]
  name, is_sparse = e["builder"], bool(e["spec"][0])
  R = _spec_reader(spec, pre)
  exp = SIMPLE[name](R) if name in SIMPLE else rf.EXPECTED[name](R)
  w = R.tid[0]
  bad = []
  cnt = exp["counter"]
  got_rows = int(post["nefc_out"][w] - pre["nefc_out"][w])
  got_cnt = int(post[cnt][w] - pre[cnt][w])
  if exp.get("both"):
    want = 2
  else:
    want = len(exp["rows"]) if exp["act"] else 0
  if got_rows != want or got_cnt != want:
    bad.append(f"thread allocates {got_rows} rows ({cnt} += {got_cnt}), MuJoCo: {want}")
  if exp["act"] and not exp.get("both") and e["what"] != "count":
    e0 = int(pre["nefc_out"][w])
    flags = int(R.scalar("opt_disableflags"))
    ts = float(pre["opt_timestep"][w % pre["opt_timestep"].shape[0]])
    nv = int(R.scalar("nv"))
    for r, row in enumerate(exp["rows"]):
      er = e0 + r
      if er >= post["efc_type_out"].shape[1]:
        continue
      if is_sparse:
        J = np.zeros(nv)
        nnz, adr = int(post["efc_J_rownnz_out"][w, er]), int(post["efc_J_rowadr_out"][w, er])
        for k in range(max(0, nnz)):
          c = int(post["efc_J_colind_out"][w, 0, adr + k])
          if 0 <= c < nv:
            J[c] += post["efc_J_out"][w, 0, adr + k]
      else:
        J = post["efc_J_out"][w, er, :nv]
      Jref = np.array([float(rf.jsum(exp["J"](r, c))) for c in range(nv)])
      if not np.allclose(J, Jref, rtol=2e-3, atol=1e-5):
        bad.append(f"row {er} Jacobian {J} vs MuJoCo reference {Jref}")
      vel = float(sum(Jref[c] * float(pre["qvel_in"][w, c]) for c in range(nv)))
      full = rf.ref_row((flags & rf.REFSAFE_BIT) == 0, ts, row["pos_aref"], row["pos_imp"], row["invweight"], row["solref"], row["solimp"], row["margin"], vel, row["frictionloss"], row["type"], row["id"])
      flds = ["type", "id", "pos", "margin", "vel", "frictionloss", "D"] + (["aref"] if row.get("aref_extra", 0.0) is not None else [])
      for f in flds:
        got = post[f"efc_{f}_out"][w, er]
        want_v = full[f] + (row.get("aref_extra", 0.0) if f == "aref" else 0.0)
        if not lib.approx(got, want_v, rtol=5e-3, atol=1e-4):
          bad.append(f"row {er} efc.{f} = {got} vs MuJoCo reference {want_v}")
  return (not bad), "; ".join(bad) or "rows agree with the reference"


def check_rows(B, exp, w, nv):
  """the obligations shared by all builders.  exp: expected rows of this thread (ref_c05.expected_*)"""
  ctx, kt = B.ctx, B.kt
  nrows = len(exp["rows"])
  bg = kt.bg + B.counters(w)
  for text, cond in exp["pre"]:
    ctx.assume(text)
    bg.append(core.zbool(cond))
  act, fits = exp["act"], B.fits(nrows)
  sess = ctx.session(bg)
  ctx.reach(sess, "twin:active-and-fitting", And(act, fits))
  names = {"w": w, "nefc0": B.e0, "njmax": B.njmax, "nnz0": B.a0, "njmax_nnz": B.nnzmax}
  tag = f"{B.name}{tuple(B.spec)}"
  # counters
  cnt = kt.atomic_total(exp["counter"], w)
  regular = Not(exp["both"]) if "both" in exp else True
  want = ite(act, nrows, 0)
  ctx.prove(sess, "count", And(cmp("==", cnt, want), cmp("==", B.n, want)), regular, names=names, replay=B.replay("count", "count"), desc=f"{tag}: {exp['counter'][:-4]}/nefc do not advance by the number of rows MuJoCo creates for this constraint")
  if "both" in exp:
    ctx.reach(sess, "twin:both-limits-inside-margin", exp["both"])
    ctx.prove(sess, "count/both-limits-active", And(cmp("==", cnt, 2), cmp("==", B.n, 2)), exp["both"], names=names, replay=B.replay("count-both", "count"), desc=f"{tag}: both limits are inside the margin: MuJoCo creates one row per side (2 rows), mujoco_warp only the nearer side")
    inactive = exp["none"]
  else:
    inactive = Not(act)
  ctx.prove(sess, "inactive-writes-nothing", Not(B.any_write()), inactive, names=names, replay=B.replay("inactive", "count"), desc=f"{tag}: an inactive / disabled constraint writes to Data")
  # exactly one _efc_row call per expected row
  if len(B.rows) != nrows:
    ctx.error(f"{tag}: {len(B.rows)} _efc_row call sites for {nrows} expected rows")
    return sess, bg
  G = And(act, fits)
  for r, ((g, a), row) in enumerate(zip(B.rows, exp["rows"])):
    er = arith("+", B.e0, r)
    rp = B.replay(f"row{r}", "rows")
    ctx.prove(sess, f"row{r}/emitted", And(g, cmp("==", a["efcid"], er), cmp("==", a["worldid"], w)), G, names=names, replay=rp, desc=f"{tag}: row {r} of an active fitting constraint is not assembled at nefc0+{r}")
    ctx.prove(sess, f"row{r}/emitted-only-if-active", Implies(g, Or(act, exp.get("both", False))), True, names=names, replay=rp, desc=f"{tag}: a row is assembled for an inactive constraint")
    for f in ("pos_aref", "pos_imp", "invweight", "margin", "frictionloss", "type", "id"):
      if row.get(f + "_sq"):
        goal = And(cmp(">=", a[f], 0.0), cmp("==", arith("*", a[f], a[f]), row[f]))
      else:
        goal = cmp("==", a[f], row[f])
      ctx.prove(sess, f"row{r}/{f}", goal, G, names=names, replay=rp, desc=f"{tag}: row {r}: {f} handed to _efc_row differs from MuJoCo's row")
    ctx.prove(sess, f"row{r}/solref", And(*[cmp("==", x, y) for x, y in zip(a["solref"].c, row["solref"])]), G, names=names, replay=rp, desc=f"{tag}: row {r}: wrong solref")
    ctx.prove(sess, f"row{r}/solimp", And(*[cmp("==", x, y) for x, y in zip(a["solimp"].c, row["solimp"])]), G, names=names, replay=rp, desc=f"{tag}: row {r}: wrong solimp")
    ctx.prove(sess, f"row{r}/timestep+flags", And(cmp("==", a["timestep"], kt.pre("opt_timestep", arith("%", w, kt.cell("opt_timestep").shape[0]))), cmp("==", a["opt_disableflags"], kt.args["opt_disableflags"])), G, names=names, replay=rp, desc=f"{tag}: row {r}: wrong timestep / disable flags")
    # Jacobian row vs reference, velocity = J.qvel
    c = z3.Int("c")
    cases = (exp.get("cases") if __import__("os").environ.get("C05_CASES", "1") == "1" else None) or [("", True)]
    if len(cases) > 1:
      ctx.prove(sess, f"row{r}/cases-cover", Or(*[cg for _, cg in cases]), G, names=names, replay=rp, desc=f"{tag}: case split of the tendon row patterns is incomplete (harness)")
      ctx.bound(case_split=f"{len(cases)} column patterns of the tendon Jacobian rows (complete under the bounds; coverage is a query)")
    for cn, cg in cases:
      sfx = f"[{cn}]" if cn else ""
      ctx.prove(sess, f"row{r}/J{sfx}", cmp("==", B.written_J(w, er, c), rf.jsum(exp["J"](r, c))), And(G, cg, c >= 0, cmp("<", c, nv)), names=dict(names, c=c), replay=B.replay(f"row{r}/J", "rows"), desc=f"{tag}: row {r}: Jacobian entry differs from MuJoCo's row")
    if B.is_sparse:
      nnz, adr = kt.post("efc_J_rownnz_out", w, er), kt.post("efc_J_rowadr_out", w, er)
      ctx.prove(sess, f"row{r}/csr-block", And(cmp(">=", nnz, 0), cmp("<=", nnz, B.U), cmp(">=", adr, B.a0), cmp("<=", arith("+", adr, nnz), arith("+", B.a0, B.nn))), G, names=names, replay=rp, desc=f"{tag}: row {r}: CSR row lies outside the non-zero block this thread allocated")
    # efc.vel = (written row) . qvel; together with row/J this gives efc.vel = J_MuJoCo . qvel (also the C22 obligation)
    velw = rf.vsum([ite(And(cmp("<", cc, nv), cnd), arith("*", cf, kt.pre("qvel_in", w, cc)), 0.0) for cc in range(B.U) for cnd, cf in B.written_Jt(w, er, cc)])
    for cn, cg in cases:
      sfx = f"[{cn}]" if cn else ""
      ctx.prove(sess, f"row{r}/vel=J*qvel{sfx}", cmp("==", a["vel"], velw), And(G, cg, cmp("<=", nv, B.U)), names=names, replay=rp, desc=f"{tag}: row {r}: efc.vel differs from (Jacobian row written by the same thread) * qvel")
    # final state of the row = what _efc_row stored (+ the documented correction)
    for f in ("type", "id", "pos", "margin", "vel", "frictionloss", "D"):
      src = {"type": a["type"], "id": a["id"], "pos": arith("+", a["pos_aref"], a["margin"]), "margin": a["margin"], "vel": a["vel"], "frictionloss": a["frictionloss"], "D": a["D!"]}[f]
      ctx.prove(sess, f"row{r}/final/{f}", cmp("==", kt.post(f"efc_{f}_out", w, er), src), G, names=names, replay=rp, desc=f"{tag}: row {r}: efc.{f} is modified after _efc_row")
    extra = row.get("aref_extra", 0.0)
    if extra is not None:
      ctx.prove(sess, f"row{r}/final/aref", cmp("==", kt.post("efc_aref_out", w, er), arith("+", a["aref!"], extra)), G, names=names, replay=rp, desc=f"{tag}: row {r}: efc.aref differs from the reference acceleration (+ Jdot*v correction)")
  return sess, bg


def unit_rows(builder, spec, U):
  def run(ctx):
    from mujoco_warp._src import constraint

    B = Builder(ctx, builder, spec, U)
    ctx.encode(constraint._efc_row)
    ctx.bound(unroll=U, shape_cap=6, note=f"nv, tendon row length and loops <= {U}; array dims <= 6")
    ctx.assume("thread's own array accesses are in bounds (C17)", "loop trip counts <= unroll bound", "rows fit: nefc0 + nrows <= njmax and (sparse) nnz0 + nnz <= njmax_nnz (overflow is C16)", "floats are exact reals", "`_efc_row` is replaced by its recording contract (its body is decided by the efc_row units)")
    R = rf.SymReader(B.kt, U)
    exp = SIMPLE[builder](R)
    check_rows(B, exp, B.w, B.kt.args["nv"])

  return (f"rows/{builder}/{'sparse' if spec[0] else 'dense'}-{'newton' if spec[1] else 'cg'}", run)


# ------------------------------------------------------------------------------------------------ units


def unit_refcheck(ctx):
  bad, n = rf.validate_rows()
  ctx.notes.append(f"ref_row validated against mujoco on {n} rows (joint equality / dof friction / joint limit; regular and degenerate solref/solimp, refsafe on/off)")
  for b in bad[:5]:
    ctx.error("reference model disagrees with the mujoco library: " + b)
  for fn in (rf.validate_builders, rf.validate_contacts):
    bad, n = fn()
    ctx.notes.append(f"{fn.__name__}: {n} rows compared with mujoco")
    for b in bad[:5]:
      ctx.error("reference model disagrees with the mujoco library: " + b)
  # a trivial solver query so that the unit is visible in the evidence
  s = ctx.session([])
  ctx.reach(s, "twin:reference-validated", len(bad) == 0)


def unit_efc_row(refsafe_on):
  def run(ctx):
    from checks import kernels_c05 as K
    from mujoco_warp._src import constraint

    f = constraint._efc_row
    k = K.efc_row_wrap
    ctx.encode(f)
    flags = 0 if refsafe_on else rf.REFSAFE_BIT
    ctx.bound(opt_disableflags=flags, note="REFSAFE bit concrete (both values are units); all float inputs symbolic reals")
    ctx.assume(
      "floats are exact reals; pow is uninterpreted (Ackermannised) with true facts: pow(a,0)=1, pow(a,p)=a*pow(a,p-1), pow(a,p-1)>0 for a in {mid,1-mid}; base-monotone on [0,mid] and [0,1-mid]",
      "timestep > 0",
      "regular queries: solref not of mixed sign, sanitised dmin <= dmax, solimp width > mjMINVAL (the other regions are the degenerate/* queries)",
      "dmax^2*timeconst^2*dampratio^2 >= mjMINVAL and dmax*|solref[0]| >= mjMINVAL (MuJoCo's division guards in K and B do not engage; mujoco_warp has no such guard)",
    )
    args = kh.make_args(k, shapes={l: [1, 1] for l in ROW_OUTS}, scalars={"opt_disableflags": flags})
    replay.snapshot_initial(args)
    fargs = dict(args)
    fargs["worldid"] = 0
    fargs["efcid"] = 0
    it, _ = kh.run(f, fargs, unroll=2)
    kt = lib.KT(k, args, it, z3.Int("tid0"), [core.zbool(a) for a in it.assumes], [])
    A = args
    solref, solimp = A["solref"].c, A["solimp"].c
    ref = rf.ref_row(refsafe_on, A["timestep"], A["pos_aref"], A["pos_imp"], A["invweight"], solref, solimp, A["margin"], A["vel"], A["frictionloss"], A["type"], A["id"])
    reg = rf.regular_params(solref, solimp, A["timestep"], refsafe_on)
    x = rf.div(rf.fabs(A["pos_imp"]), ref["si"][2])
    bg = kt.bg + pow_facts(ref["si"], x) + [A["timestep"] > 0]
    names = {l: A[l] for l in ("timestep", "pos_aref", "pos_imp", "invweight", "margin", "vel")}
    names.update({f"solref{i}": solref[i] for i in range(2)})
    names.update({f"solimp{i}": solimp[i] for i in range(5)})
    # integer / copied fields: plain session
    s0 = ctx.session(bg)
    ctx.reach(s0, "twin:regular-region", And(*reg.values()))
    for fld in ("type", "id", "pos", "margin", "vel", "frictionloss"):
      rp = lib.make_replay(ctx, kt, "checks.kernels_c05:efc_row_wrap", fld, "goal", goal="checks.c05:goal_efc_row", env={"fields": [fld]})
      ctx.prove(s0, fld, kt.post(fld + "_out", 0, 0) == core.to_z3(ref[fld], "int" if fld in ("type", "id") else "real"), True, names=names, replay=rp, desc=f"_efc_row writes efc.{fld} different from MuJoCo's row")
    # impedance-derived fields: nonlinear reals, pow Ackermannised, nlsat
    goalD = kt.post("D_out", 0, 0) == core.to_z3(ref["D"], "real")
    goalA = kt.post("aref_out", 0, 0) == core.to_z3(ref["aref"], "real")
    regions = {
      "regular": And(*reg.values()),
      "degenerate/solimp-width<=mjMINVAL": And(reg["not_mixed"], reg["ordered"], Not(reg["width"]), reg["kb_noclamp"]),
      "degenerate/solref-mixed-sign": And(Not(reg["not_mixed"]), reg["ordered"], reg["width"], reg["kb_noclamp"]),
      "degenerate/solimp-dmin>dmax": And(reg["not_mixed"], Not(reg["ordered"]), reg["width"], reg["kb_noclamp"]),
    }
    terms = [core.zbool(b) for b in bg] + [core.zbool(goalD), core.zbool(goalA)] + [core.zbool(r) for r in regions.values()]
    out, cong, apps = ackermannize(terms)
    nb = len(bg)
    s1 = ctx.session(out[:nb] + cong, tactic="qfnra-nlsat")
    gD, gA = out[nb], out[nb + 1]
    rg = dict(zip(regions.keys(), out[nb + 2 :]))
    ctx.bound(pow_applications=len(apps))
    ctx.reach(s1, "twin:regular-region(nlsat)", rg["regular"])
    rpD = lib.make_replay(ctx, kt, "checks.kernels_c05:efc_row_wrap", "D", "goal", goal="checks.c05:goal_efc_row", env={"fields": ["D"]})
    rpA = lib.make_replay(ctx, kt, "checks.kernels_c05:efc_row_wrap", "aref", "goal", goal="checks.c05:goal_efc_row", env={"fields": ["aref"]})
    rpDA = lib.make_replay(ctx, kt, "checks.kernels_c05:efc_row_wrap", "D+aref", "goal", goal="checks.c05:goal_efc_row", env={"fields": ["D", "aref"]})
    ctx.prove(s1, "regular/D", gD, rg["regular"], names=names, replay=rpD, desc="_efc_row: efc.D differs from 1/max(mjMINVAL, (1-imp)*diagApprox/imp) with MuJoCo's impedance")
    ctx.prove(s1, "regular/aref", gA, rg["regular"], names=names, replay=rpA, desc="_efc_row: efc.aref differs from -B*vel - K*imp*(pos-margin) with MuJoCo's K, B, imp")
    what = {
      "degenerate/solimp-width<=mjMINVAL": "solimp width <= mjMINVAL with dmin != dmax: MuJoCo uses the flat impedance (dmin+dmax)/2, mujoco_warp clamps the width to mjMINVAL and saturates to dmax (or dmin at pos == 0)",
      "degenerate/solref-mixed-sign": "solref of mixed sign: MuJoCo replaces it by the default (0.02, 1); mujoco_warp applies the standard formula to one term and the direct formula to the other",
      "degenerate/solimp-dmin>dmax": "solimp dmin > dmax: MuJoCo interpolates dmin + y*(dmax-dmin) without clamping; wp.clamp(imp, dmin, dmax) collapses to dmax",
    }
    for rn, txt in what.items():
      ctx.reach(s1, f"twin:{rn}", rg[rn])
      ctx.prove(s1, rn, z3.And(gD, gA), rg[rn], names=names, replay=rpDA, desc="_efc_row D/aref differ from MuJoCo: " + txt)

  return (f"efc_row/refsafe-{'on' if refsafe_on else 'off'}", run)


def main(tier, seed, only=None):
  units = [("refcheck", unit_refcheck), unit_efc_row(True), unit_efc_row(False)]
  specs = [(False, True), (True, True)] + ([(True, False)] if tier == "thorough" else [])
  U = int(__import__("os").environ.get("C05_U", 3 if tier == "quick" else 4))
  for b in SIMPLE:
    for sp in specs:
      units.append(unit_rows(b, sp, U))
  if only:
    units = [u for u in units if any(o in u[0] for o in only)]
  return report.run_check(PID, units, tier, seed)
