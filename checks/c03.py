"""C03 Actuation agrees with MuJoCo C.

Exact differential queries (floats = reals, exp / atan2 uninterpreted but shared) between the REAL mujoco_warp code and reference
models written from MuJoCo's mj_fwdActuation / mj_nextActivation / mj_transmission semantics (checks/act_c03.py, validated
numerically against the mujoco library in unit `reference`):
 muscle/*            util_misc.muscle_gain / muscle_bias / muscle_dynamics  ==  mju_muscleGain / Bias / Dynamics
 actuator_force/*    _actuator_force for every dyntype x gaintype x biastype: act_dot and force (ctrl clamp, CLAMPCTRL flag, actearly through
                     the real next_act, forcerange), only act_dot of the last activation written
 next_activation/*   _next_activation == mj_nextActivation for every dyntype (actrange clamp, FILTEREXACT), all actnum slots
 tendon_limit        _tendon_actuator_force (+=) and _tendon_actuator_force_clamp (scale by range / total)
 qfrc_actuator       _qfrc_actuator: qfrc += moment^T force over the CSR moment row;  _qfrc_actuator_gravcomp_limits: gravcomp routing + joint clamp
 transmission/*      _transmission JOINT / JOINTINPARENT (slide, hinge, ball, free) and TENDON: length, rownnz, colind, moment
 fwd_actuation/*     H mode: the real fwd_actuation on tiny models, all Data inputs and limits symbolic: actuator_force / qfrc_actuator
                     equal the reference pipeline (force law -> tendon scaling -> forcerange clamp -> J^T f -> gravcomp -> joint clamp)
Outside: DCMOTOR dynamics/gain/bias, SITE / SLIDERCRANK / BODY transmissions, user callbacks, delayed ctrl (history, C28).
"""

import itertools
import json
import os
import sys

import numpy as np
import z3

from checks import act_c03 as A
from checks import lib
from checks import quat_c23 as Q
from wsym import core, host, kh, report
from wsym.core import And, Implies, Not, Or, Vec, arith, cmp, ite

PID = "C03"
sys.set_int_max_str_digits(0)  # nlsat models can carry huge rationals
if not getattr(kh.mval, "_safe", False):
  kh.mval = A.safe_mval(kh.mval)
  kh.mval._safe = True
R = z3.RealSort()
DYN, GAIN, BIAS = A.DYN, A.GAIN, A.BIAS

UNBATCH2 = ["actuator_dynprm", "actuator_gainprm", "actuator_biasprm", "actuator_actrange", "actuator_forcerange", "actuator_ctrlrange", "actuator_acc0", "actuator_lengthrange"]


def _save(name, obj):
  d = os.path.join(report.VERIF, "replays", PID)
  os.makedirs(d, exist_ok=True)
  p = os.path.join(d, name.replace("/", "_") + ".json")
  with open(p, "w") as f:
    json.dump(obj, f, indent=1, default=str)
  return p


def vec_pre(kt, label, *idx):
  v = kt.prev(label, *idx)
  return list(v.c)


# ------------------------------------------------------------------------------------------------ reference (numeric validation)


def unit_reference(ctx):
  n = 40 if ctx.tier == "quick" else 200
  errs = A.validate(ctx.seed, n)
  sess = ctx.session([])
  ctx.reach(sess, "twin:validated", True)
  ctx.notes.append(f"reference force law / activation advance / muscle functions compared with mujoco {__import__('mujoco').__version__} on {n} random actuator models: {len(errs)} mismatches")
  for e in errs[:3]:
    ctx.error("reference model disagrees with mujoco (harness error, not a finding): " + e[:500])


def unit_lemma_clip(ctx):
  x, lo, hi = z3.Reals("x lo hi")
  sess = ctx.session([])
  ctx.reach(sess, "twin:any", lo <= hi)
  ctx.prove(sess, "mju_clip==min(max(x,lo),hi)", A.mju_clip(x, lo, hi) == A.clip(x, lo, hi), lo <= hi, names={"x": x, "lo": lo, "hi": hi}, replay=lambda m: (False, "arithmetic lemma"), desc="clip lemma")
  ctx.prove(sess, "wp.clamp==min(max(x,lo),hi)", core.vmin(core.vmax(x, lo), hi) == A.clip(x, lo, hi), names={"x": x}, replay=lambda m: (False, "arithmetic lemma"), desc="clamp canonical form")


# ------------------------------------------------------------------------------------------------ muscles


def unit_muscle(which):
  def run(ctx):
    import mujoco
    from mujoco_warp._src import util_misc as U

    fn = {"gain": U.muscle_gain, "bias": U.muscle_bias, "dynamics": U.muscle_dynamics}[which]
    ctx.encode(fn, U.muscle_gain_length, U.muscle_dynamics_timescale, U._sigmoid)
    ctx.assume("floats are reals")
    v = lambda name, n: Vec([z3.Real(f"{name}{i}") for i in range(n)], (n,), "f")
    ln, vl, a0, ctrl, act = z3.Reals("len vel acc0 ctrl act")
    lr, prm = v("lengthrange", 2), v("prm", 10)
    if which == "gain":
      args, ref = [ln, vl, lr, a0, prm], A.muscle_gain(ln, vl, lr.c, a0, prm.c)
    elif which == "bias":
      args, ref = [ln, lr, a0, prm], A.muscle_bias(ln, lr.c, a0, prm.c)
    else:
      args, ref = [ctrl, act, prm], A.muscle_dynamics(ctrl, act, prm.c)
    it = A.make_interp()()
    it, r = kh.run(fn, args, interp=it)
    sess = ctx.session(it.assumes, timeout_ms=max(ctx.timeout_ms, 60000))
    ctx.reach(sess, "twin:any", True)
    names = {"len": ln, "vel": vl, "acc0": a0, "ctrl": ctrl, "act": act} | {f"lr{i}": lr.c[i] for i in range(2)} | {f"prm{i}": prm.c[i] for i in range(10)}

    def rp(model):
      g = lambda x: float(Q.clipf(kh.mval(model, x), 1e4))
      P = np.array([g(c) for c in prm.c])
      L = np.array([g(c) for c in lr.c])
      real = _real_muscle(which, g(ln), g(vl), L, g(a0), P, g(ctrl), g(act))
      if which == "gain":
        want = mujoco.mju_muscleGain(g(ln), g(vl), L, g(a0), P[:9])
      elif which == "bias":
        want = mujoco.mju_muscleBias(g(ln), L, g(a0), P[:9])
      else:
        want = mujoco.mju_muscleDynamics(g(ctrl), g(act), P[:3])
      if lib.approx(real, want, rtol=1e-3, atol=1e-4):
        # the solver's point may be invisible in float32 (tiny magnitudes): confirm on re-drawn inputs, keeping the comparison real code vs mujoco
        rr = np.random.default_rng(0)
        for _ in range(300):
          P = np.array([0.75, 1.05, rr.choice([-1.0, 30.0]), 200.0, rr.uniform(0.3, 0.7), rr.uniform(1.3, 1.8), 1.5, 1.3, 1.2, 0.0])
          L = np.array([rr.uniform(-1, 0), rr.uniform(0.5, 2)])
          x = dict(ln=rr.uniform(-1, 3), vl=rr.normal() * 3, a0=rr.uniform(0.5, 50), c=rr.uniform(-0.5, 1.5), a=rr.uniform(-0.5, 1.5))
          if which == "dynamics":
            P[:3] = [rr.uniform(0.005, 0.05), rr.uniform(0.01, 0.1), rr.choice([0.0, 0.2, 1.0])]
          real = _real_muscle(which, x["ln"], x["vl"], L, x["a0"], P, x["c"], x["a"])
          want = mujoco.mju_muscleGain(x["ln"], x["vl"], L, x["a0"], P[:9]) if which == "gain" else mujoco.mju_muscleBias(x["ln"], L, x["a0"], P[:9]) if which == "bias" else mujoco.mju_muscleDynamics(x["c"], x["a"], P[:3])
          if not lib.approx(real, want, rtol=1e-3, atol=1e-4):
            return True, _save(f"muscle.{which}", {"inputs": {k: float(v) for k, v in x.items()}, "lengthrange": L.tolist(), "prm": P.tolist(), "mujoco_warp": real, "mujoco": want, "note": "re-drawn inputs (solver point not visible in float32)"})
      path = _save(f"muscle.{which}", {"len": g(ln), "vel": g(vl), "lengthrange": L.tolist(), "acc0": g(a0), "prm": P.tolist(), "ctrl": g(ctrl), "act": g(act), "mujoco_warp": real, "mujoco": want})
      return (not lib.approx(real, want, rtol=1e-3, atol=1e-4)), path

    A.prove_eq(ctx, sess, f"muscle_{which}==mju", r, ref, names=names, replay=rp, desc=f"util_misc.muscle_{which} differs from MuJoCo's mju_muscle{which.capitalize()}")

  return (f"muscle/{which}", run)


_MK = {}


def _real_muscle(which, ln, vl, lr, a0, prm, ctrl, act):
  import warp as wp
  from mujoco_warp._src import types, util_misc as U

  if not _MK:

    @wp.kernel
    def k(x: wp.array(dtype=float), lr: wp.array(dtype=wp.vec2), prm: wp.array(dtype=types.vec10), o: wp.array(dtype=float)):
      o[0] = U.muscle_gain(x[0], x[1], lr[0], x[2], prm[0])
      o[1] = U.muscle_bias(x[0], lr[0], x[2], prm[0])
      o[2] = U.muscle_dynamics(x[3], x[4], prm[0])

    _MK["k"] = k
  x = wp.array(np.array([ln, vl, a0, ctrl, act], dtype=np.float32), dtype=float, device="cpu")
  o = wp.zeros(3, dtype=float, device="cpu")
  wp.launch(_MK["k"], dim=1, inputs=[x, wp.array(np.array([lr], dtype=np.float32), dtype=wp.vec2, device="cpu"), wp.array(np.array([prm], dtype=np.float32), dtype=types.vec10, device="cpu")], outputs=[o], device="cpu")
  return float(o.numpy()[{"gain": 0, "bias": 1, "dynamics": 2}[which]])


def undef_queries(ctx, sess, it, names, replay, what):
  """every read of a local that is not assigned on all paths must be dominated by an assignment (Warp: uninitialised C++ local)"""
  seen = {}
  for frname, var, guard, dg in it.undef:
    key = (frname, var)
    seen.setdefault(key, []).append(Implies(guard, dg))
  for (frname, var), conds in seen.items():
    ctx.prove(sess, f"initialised-before-read/{frname}.{var}", And(*conds), names=names, replay=replay, desc=f"{what}: local `{var}` of {frname} is read on a path where it was never assigned (uninitialised value)")


# ------------------------------------------------------------------------------------------------ _actuator_force


def goal_actuator_force(spec, pre, post):
  """replay goal: real kernel output vs the reference evaluated in floats on the same inputs"""
  w, u = spec["tid"][0], spec["tid"][1]
  def vec(lab, n):
    a = pre[lab]
    return [float(x) for x in a[0, u]] if a.shape[1] > u and a.shape[0] > 0 else [0.0] * n

  def sc(lab, *i):
    a = pre[lab]
    return a[i] if all(j < s_ for j, s_ in zip(i, a.shape)) else 0

  adr, num = int(sc("actuator_actadr", u)) if pre["actuator_actadr"].shape[0] > u else -1, int(sc("actuator_actnum", u))
  last = adr + num - 1
  na = int(spec["args"]["na"]["scalar"])
  dyn = int(sc("actuator_dyntype", u))
  stateful = bool(na) and adr >= 0
  p = dict(dyntype=dyn if stateful else 0, gaintype=int(sc("actuator_gaintype", u)), biastype=int(sc("actuator_biastype", u)), ctrl=float(pre["ctrl_in"][w, u]),
           ctrllimited=bool(sc("actuator_ctrllimited", u)), ctrlrange=vec("actuator_ctrlrange", 2), clampctrl_disabled=bool(int(spec["args"]["dsbl_clampctrl"]["scalar"])),
           act=float(sc("act_in", w, last)) if stateful else 0.0, dynprm=vec("actuator_dynprm", 10), gainprm=vec("actuator_gainprm", 10),
           biasprm=vec("actuator_biasprm", 10), actlimited=bool(sc("actuator_actlimited", u)), actrange=vec("actuator_actrange", 2),
           actearly=bool(sc("actuator_actearly", u)), forcelimited=bool(sc("actuator_forcelimited", u)), forcerange=vec("actuator_forcerange", 2),
           length=float(pre["actuator_length_in"][w, u]), velocity=float(pre["actuator_velocity_in"][w, u]), acc0=float(sc("actuator_acc0", 0, u)),
           lengthrange=vec("actuator_lengthrange", 2), h=float(pre["opt_timestep"][w % len(pre["opt_timestep"])]) if len(pre["opt_timestep"]) else 0.0)
  for rn, fl in (("ctrlrange", "ctrllimited"), ("actrange", "actlimited"), ("forcerange", "forcelimited")):
    if p[fl] and p[rn][0] > p[rn][1]:
      return True, f"skipped: inverted {rn} (outside the precondition)"
  ad, f = A.force_ref(p)
  got_f = float(post["actuator_force_out"][w, u])
  ok = lib.approx(got_f, f, rtol=1e-3, atol=1e-4)
  msg = f"actuator_force[{w},{u}] = {got_f}, MuJoCo semantics give {f}"
  if ad is not None:
    got_ad = float(post["act_dot_out"][w, last])
    ok = ok and lib.approx(got_ad, ad, rtol=1e-3, atol=1e-4)
    msg += f"; act_dot[{w},{last}] = {got_ad}, expected {ad}"
  return ok, msg + f" (dyntype {dyn}, gaintype {p['gaintype']}, biastype {p['biastype']}, actearly {p['actearly']}, actlimited {p['actlimited']}, act {p['act']})"


def unit_actuator_force(dname, gname, bname):
  def run(ctx):
    from mujoco_warp._src import forward, support, util_misc as U

    k = forward._actuator_force
    ctx.encode(k, support.next_act)
    dyn, gain, bias = DYN[dname], GAIN[gname], BIAS[bname]
    ctx.bound(shape_cap=4, note="one generic thread; batched model fields with first dimension 1 (world indexing is C09)")
    ctx.assume("limited ranges satisfy lo <= hi (MuJoCo's compiler rejects inverted ranges)", "stateless actuator (dyntype none) has actadr = -1; stateful ones have actadr >= 0, actnum >= 1 and na > 0 (MuJoCo model invariant)",
               "muscle_gain / muscle_bias / muscle_dynamics are uninterpreted here (compared separately: units muscle/*)", "thread's own accesses in bounds (C17)")
    AI = A.make_interp()
    it = AI(fixed={"actuator_dyntype": dyn, "actuator_gaintype": gain, "actuator_biastype": bias}, summaries=A.muscle_summaries())
    kt = lib.kernel_thread(k, shapes={l: [1, None] for l in UNBATCH2}, cap=4, interp_kw={"interp": it})
    w, u = kt.tid
    na = kt.args["na"]
    P = lambda lab, *i: kt.pre(lab, *i)
    adr, num = P("actuator_actadr", u), P("actuator_actnum", u)
    last = adr + num - 1
    p = dict(dyntype=dyn, gaintype=gain, biastype=bias, ctrl=P("ctrl_in", w, u), ctrllimited=P("actuator_ctrllimited", u), ctrlrange=vec_pre(kt, "actuator_ctrlrange", 0, u),
             clampctrl_disabled=kt.args["dsbl_clampctrl"] != 0, act=P("act_in", w, last), dynprm=vec_pre(kt, "actuator_dynprm", 0, u), gainprm=vec_pre(kt, "actuator_gainprm", 0, u),
             biasprm=vec_pre(kt, "actuator_biasprm", 0, u), actlimited=P("actuator_actlimited", u), actrange=vec_pre(kt, "actuator_actrange", 0, u), actearly=P("actuator_actearly", u),
             forcelimited=P("actuator_forcelimited", u), forcerange=vec_pre(kt, "actuator_forcerange", 0, u), length=P("actuator_length_in", w, u), velocity=P("actuator_velocity_in", w, u),
             acc0=P("actuator_acc0", 0, u), lengthrange=vec_pre(kt, "actuator_lengthrange", 0, u), h=P("opt_timestep", arith("%", w, kt.cell("opt_timestep").shape[0])))
    ad_ref, f_ref = A.force_ref(p, muscle=A.muscle_ufs())
    rng_ok = [p[r][0] <= p[r][1] for r in ("ctrlrange", "actrange", "forcerange")]
    inv = (z3.And(adr == -1) if dyn == DYN["none"] else z3.And(adr >= 0, num >= 1, na > 0))
    fixed = [P("actuator_dyntype", u) == dyn, P("actuator_gaintype", u) == gain, P("actuator_biastype", u) == bias]
    sess = ctx.session(kt.bg + rng_ok + [inv] + fixed)
    ctx.reach(sess, "twin:reachable", True)
    if dyn != DYN["none"]:
      ctx.reach(sess, "twin:actearly+limited", And(p["actearly"], p["actlimited"]))
    names = {"w": w, "u": u, "na": na, "actadr": adr, "actnum": num, "actearly": p["actearly"], "actlimited": p["actlimited"], "ctrllimited": p["ctrllimited"], "forcelimited": p["forcelimited"], "act": p["act"], "ctrl": p["ctrl"]}
    loc = "mujoco_warp._src.forward:_actuator_force"
    rp = lambda n: lib.make_replay(ctx, kt, loc, n, "goal", goal="checks.c03:goal_actuator_force", env={"randomize_floats": 8})
    tag = f"{dname}-{gname}-{bname}"
    force = kt.post("actuator_force_out", w, u)
    if dyn == DYN["user"]:
      # USER dynamics: the two deviations found on the unchanged tree are isolated in their own queries
      early, lim = core.zbool(p["actearly"]), core.zbool(p["actlimited"])
      A.prove_eq(ctx, sess, "force/user-not-actearly", force, f_ref, z3.Not(early), names=names, replay=rp("force.user.late"), desc=f"_actuator_force ({tag}): actuator_force differs from MuJoCo")
      A.prove_eq(ctx, sess, "force/user-actearly-unassigned-act", force, f_ref, early, names=names, replay=replay_user_api(),
                desc=f"_actuator_force ({tag}, actearly): the activation fed to the gain is read from a local `act` that is never assigned for dyntype USER (MuJoCo: next activation of act[last])")
    else:
      A.prove_eq(ctx, sess, "force", force, f_ref, names=names, replay=rp("force"), desc=f"_actuator_force ({tag}): actuator_force differs from MuJoCo's gain*[ctrl|act|next act] + bias with ctrl clamp / forcerange")
    if ad_ref is not None:
      A.prove_eq(ctx, sess, "act_dot", kt.post("act_dot_out", w, last), ad_ref, names=names, replay=rp("act_dot"), desc=f"_actuator_force ({tag}): act_dot of the last activation differs from MuJoCo")
    w2, i2 = z3.Int("w2"), z3.Int("i2")
    only = z3.And(w2 == w, i2 == last) if dyn != DYN["none"] else z3.BoolVal(False)
    ctx.prove(sess, "frame/act_dot", Implies(kt.written("act_dot_out", w2, i2), only), names=dict(names, w2=w2, i2=i2), replay=rp("frame"), desc=f"_actuator_force ({tag}) writes an act_dot entry other than the actuator's last activation")
    ctx.prove(sess, "frame/force-written", kt.written("actuator_force_out", w, u), names=names, replay=rp("frame2"), desc="actuator_force not written")
    undef_queries(ctx, sess, it, names, replay_user_api() if dyn == DYN["user"] else rp("init"), f"_actuator_force ({tag})")

  return (f"actuator_force/{dname}-{gname}-{bname}", run)



def replay_user_api(model_act=None):
  """public-API replay for dyntype USER: mjw.forward / mjw.step vs mujoco on a one-actuator model"""

  def _rp(model):
    import mujoco

    import mujoco_warp as mjw

    xml = """<mujoco><worldbody><body><joint name="j" type="slide"/><geom size=".1"/></body></worldbody>
<actuator><general joint="j" dyntype="user" actearly="true" gainprm="2" actlimited="true" actrange="-1 1"/></actuator></mujoco>"""
    mjm = mujoco.MjModel.from_xml_string(xml)
    out = []
    bad = False
    for act in (0.7, -0.4, 1.7):
      mjd = mujoco.MjData(mjm)
      mjd.act[:] = act
      m, d = mjw.put_model(mjm), mjw.put_data(mjm, mjd)
      mujoco.mj_forward(mjm, mjd)
      mjw.forward(m, d)
      f0, f1 = float(mjd.actuator_force[0]), float(d.actuator_force.numpy()[0, 0])
      mujoco.mj_step(mjm, mjd)
      mjw.step(m, d)
      a0, a1 = float(mjd.act[0]), float(d.act.numpy()[0, 0])
      out.append({"act": act, "mujoco_force": f0, "mjwarp_force": f1, "mujoco_next_act": a0, "mjwarp_next_act": a1})
      bad = bad or not lib.approx(f0, f1) or not lib.approx(a0, a1)
    return bad, _save("user-dyntype-api", {"xml": xml, "runs": out, "how": "put_data with act set, mjw.forward / mjw.step vs mujoco.mj_forward / mj_step"})

  return _rp


# ------------------------------------------------------------------------------------------------ _next_activation


def goal_next_activation(spec, pre, post):
  w, u = spec["tid"][0], spec["tid"][1]
  adr, num, dyn = int(pre["actuator_actadr"][u]), int(pre["actuator_actnum"][u]), int(pre["actuator_dyntype"][u])
  h = float(pre["opt_timestep"][w % len(pre["opt_timestep"])]) if len(pre["opt_timestep"]) else 0.0
  scale, limit = float(spec["args"]["act_dot_scale"]["scalar"]), bool(spec["args"]["limit"]["scalar"])
  rng = [float(x) for x in pre["actuator_actrange"][0, u]] if pre["actuator_actrange"].shape[1] > u else [0.0, 0.0]
  lim = limit and pre["actuator_actlimited"].shape[0] > u and bool(pre["actuator_actlimited"][u])
  if lim and rng[0] > rng[1]:
    return True, "skipped: inverted actrange"
  prm0 = float(pre["actuator_dynprm"][0, u][0]) if pre["actuator_dynprm"].shape[1] > u else 0.0
  msgs, ok = [], True
  for j in range(max(adr, 0), min(adr + num, post["act_out"].shape[1])):
    want = A.next_activation(h, dyn, prm0, lim, rng, float(pre["act_in"][w, j]), scale * float(pre["act_dot_in"][w, j]))
    got = float(post["act_out"][w, j])
    if not lib.approx(got, want, rtol=1e-3, atol=1e-4):
      ok = False
    msgs.append(f"act[{w},{j}] {pre['act_in'][w, j]} -> {got}, mj_nextActivation gives {want} (dyntype {dyn}, act_dot {pre['act_dot_in'][w, j]}, limited {lim} {rng})")
  return ok, "; ".join(msgs)


def unit_next_activation(dname, unroll):
  def run(ctx):
    from mujoco_warp._src import forward, support

    k = forward._next_activation
    dyn = DYN[dname]
    ctx.encode(k, support.next_act)
    ctx.bound(unroll=unroll, note=f"actnum <= {unroll}")
    ctx.assume("actrange lo <= hi", "thread's own accesses in bounds (C17)")
    it = A.make_interp()(unroll=unroll, fixed={"actuator_dyntype": dyn})
    kt = lib.kernel_thread(k, shapes={l: [1, None] for l in UNBATCH2 if l in ("actuator_dynprm", "actuator_gainprm", "actuator_biasprm", "actuator_actrange")}, unroll=unroll, cap=4, interp_kw={"interp": it})
    w, u = kt.tid
    P = kt.pre
    adr, num = P("actuator_actadr", u), P("actuator_actnum", u)
    rng = vec_pre(kt, "actuator_actrange", 0, u)
    h = P("opt_timestep", arith("%", w, kt.cell("opt_timestep").shape[0]))
    scale, limit = kt.args["act_dot_scale"], kt.args["limit"]
    j = z3.Int("j")
    sess = ctx.session(kt.bg + [rng[0] <= rng[1], P("actuator_dyntype", u) == dyn, adr >= 0])
    inrow = z3.And(j >= adr, j < adr + num)
    ctx.reach(sess, "twin:full-row", num == unroll)
    loc = "mujoco_warp._src.forward:_next_activation"
    rp = lambda n: lib.make_replay(ctx, kt, loc, n, "goal", goal="checks.c03:goal_next_activation", env={"randomize_floats": 8})
    names = {"w": w, "u": u, "actadr": adr, "actnum": num, "limit": limit, "scale": scale, "actlimited": P("actuator_actlimited", u)}
    for kk in range(unroll):
      jj = adr + kk
      ref = A.next_activation(h, dyn, vec_pre(kt, "actuator_dynprm", 0, u)[0], And(limit, P("actuator_actlimited", u)), rng, P("act_in", w, jj), arith("*", scale, P("act_dot_in", w, jj)))
      nm = f"next_act.{kk}" if dyn != DYN["user"] else f"next_act.{kk}/user-returns-act-unchanged"
      A.prove_eq(ctx, sess, nm, kt.post("act_out", w, jj), ref, kk < num, names=dict(names, act=P("act_in", w, jj), act_dot=P("act_dot_in", w, jj)), replay=rp(f"next{kk}"),
                 desc=f"_next_activation ({dname}): new activation differs from mj_nextActivation (act + h*act_dot [filterexact: exact], then actrange clamp)")
    w2 = z3.Int("w2")
    ctx.prove(sess, "frame", Implies(kt.written("act_out", w2, j), z3.And(w2 == w, inrow)), names=dict(names, w2=w2, j=j), replay=rp("frame"), desc="_next_activation writes an activation outside the actuator's own slots")
    undef_queries(ctx, sess, it, names, rp("init"), f"_next_activation ({dname})")

  return (f"next_activation/{dname}", run)


# ------------------------------------------------------------------------------------------------ tendon limits, qfrc


def goal_generic(spec, pre, post):
  """replay goal for the small kernels: recompute the reference in floats"""
  e = spec["env"]
  kind = e["kind"]
  w, a = spec["tid"][0], spec["tid"][1]
  TEN = 3
  if kind == "tendon_sum":
    ist = int(pre["actuator_trntype"][a]) == TEN
    t = int(pre["actuator_trnid"][a][0])
    d = post["ten_actfrc_out"].astype(float) - pre["ten_actfrc_out"].astype(float)
    want = np.zeros_like(d)
    if ist and 0 <= t < d.shape[1]:
      want[w, t] = float(pre["actuator_force_in"][w, a])
    return bool(np.allclose(d, want, rtol=1e-4, atol=1e-5)), f"ten_actfrc increments {d.tolist()} expected {want.tolist()}"
  if kind == "tendon_clamp":
    ist = int(pre["actuator_trntype"][a]) == TEN
    t = int(pre["actuator_trnid"][a][0]) if ist else 0
    f0 = float(pre["actuator_force_out"][w, a])
    if ist:
      rng = [float(x) for x in pre["tendon_actfrcrange"][w % pre["tendon_actfrcrange"].shape[0], t]]
      want = A.tendon_scale_ref(f0, True, bool(pre["tendon_actfrclimited"][t]), float(pre["ten_actfrc_in"][w, t]), rng)
    else:
      want = f0
    got = float(post["actuator_force_out"][w, a])
    return lib.approx(got, want), f"actuator_force[{w},{a}] {f0} -> {got}, expected {want}"
  if kind == "qfrc":
    nnz, adr = int(pre["moment_rownnz_in"][w, a]), int(pre["moment_rowadr_in"][w, a])
    d = post["qfrc_actuator_out"].astype(float) - pre["qfrc_actuator_out"].astype(float)
    want = np.zeros_like(d)
    for i in range(nnz):
      want[w, int(pre["moment_colind_in"][w, adr + i])] += float(pre["actuator_moment_in"][w, adr + i]) * float(pre["actuator_force_in"][w, a])
    return bool(np.allclose(d, want, rtol=1e-3, atol=1e-4)), f"qfrc_actuator increments {d.tolist()} expected {want.tolist()}"
  if kind == "jntlimit":
    j = int(pre["dof_jntid"][a])
    rng = [float(x) for x in pre["jnt_actfrcrange"][w % pre["jnt_actfrcrange"].shape[0], j]]
    lim = bool(pre["jnt_actfrclimited"][j])
    if lim and rng[0] > rng[1]:
      return True, "skipped: inverted range"
    want = A.joint_limit_ref(float(pre["qfrc_actuator_in"][w, a]), float(pre["qfrc_gravcomp_in"][w, a]), bool(pre["jnt_actgravcomp"][j]), bool(spec["args"]["gravity_enabled"]["scalar"]), lim, rng)
    got = float(post["qfrc_actuator_out"][w, a])
    return lib.approx(got, want), f"qfrc_actuator[{w},{a}] = {got}, expected {want}"
  return True, "?"


def unit_tendon_limit(ctx):
  from mujoco_warp._src import forward, types

  TEN = int(types.TrnType.TENDON)
  ctx.encode(forward._tendon_actuator_force, forward._tendon_actuator_force_clamp)
  ctx.assume("thread's own accesses in bounds (C17)")
  # sum
  k = forward._tendon_actuator_force
  kt = lib.kernel_thread(k, cap=4, interp_kw={"interp": A.make_interp()()})
  w, a = kt.tid
  t = z3.Int("t")
  w2 = z3.Int("w2")
  sess = ctx.session(kt.bg)
  ist = kt.pre("actuator_trntype", a) == TEN
  tid0 = kt.prev("actuator_trnid", a).c[0]
  ctx.reach(sess, "twin:tendon", ist)
  want = ite(z3.And(ist, tid0 == t, w2 == w), kt.pre("actuator_force_in", w, a), 0.0)
  rp = lib.make_replay(ctx, kt, "mujoco_warp._src.forward:_tendon_actuator_force", "sum", "goal", goal="checks.c03:goal_generic", env={"kind": "tendon_sum"})
  ctx.prove(sess, "total/increment", kt.atomic_total("ten_actfrc_out", w2, t) == want, names={"w": w, "a": a, "t": t, "w2": w2}, replay=rp, desc="_tendon_actuator_force: the thread's contribution to the tendon total is not its actuator_force (tendon transmissions only)")
  ctx.prove(sess, "total/no-plain-store", Not(kt.written("ten_actfrc_out", w2, t, kinds=("W",))), names={"w": w}, replay=rp, desc="_tendon_actuator_force stores non-atomically into the shared total")
  # clamp
  k = forward._tendon_actuator_force_clamp
  kt = lib.kernel_thread(k, shapes={"tendon_actfrcrange": [1, None]}, cap=4, interp_kw={"interp": A.make_interp()()})
  w, a = kt.tid
  sess = ctx.session(kt.bg)
  ist = kt.pre("actuator_trntype", a) == TEN
  tn = kt.prev("actuator_trnid", a).c[0]
  ctx.reach(sess, "twin:limited-tendon", z3.And(ist, kt.pre("tendon_actfrclimited", tn)))
  ref = A.tendon_scale_ref(kt.pre("actuator_force_out", w, a), ist, kt.pre("tendon_actfrclimited", tn), kt.pre("ten_actfrc_in", w, tn), vec_pre(kt, "tendon_actfrcrange", 0, tn))
  rp = lib.make_replay(ctx, kt, "mujoco_warp._src.forward:_tendon_actuator_force_clamp", "clamp", "goal", goal="checks.c03:goal_generic", env={"kind": "tendon_clamp", "randomize_floats": 4})
  A.prove_eq(ctx, sess, "scale", kt.post("actuator_force_out", w, a), ref, names={"w": w, "a": a, "tendon": tn}, replay=rp, desc="_tendon_actuator_force_clamp: force is not scaled by range/total exactly when the tendon total leaves the tendon's actuatorfrcrange")


def unit_qfrc(ctx):
  from mujoco_warp._src import forward

  unroll = 3 if ctx.tier == "quick" else 5
  ctx.encode(forward._qfrc_actuator, forward._qfrc_actuator_gravcomp_limits)
  ctx.bound(unroll=unroll, note=f"moment rows with at most {unroll} non-zeros")
  ctx.assume("thread's own accesses in bounds (C17)", "jnt_actfrcrange lo <= hi")
  k = forward._qfrc_actuator
  kt = lib.kernel_thread(k, unroll=unroll, cap=6, interp_kw={"interp": A.make_interp()(unroll=unroll)})
  w, a = kt.tid
  c, w2 = z3.Int("c"), z3.Int("w2")
  nnz, adr = kt.pre("moment_rownnz_in", w, a), kt.pre("moment_rowadr_in", w, a)
  sess = ctx.session(kt.bg)
  ctx.reach(sess, "twin:full-row", nnz == unroll)
  tot = 0.0
  for i in range(unroll):
    hit = z3.And(i < nnz, kt.pre("moment_colind_in", w, adr + i) == c, w2 == w)
    tot = arith("+", tot, ite(hit, arith("*", kt.pre("actuator_moment_in", w, adr + i), kt.pre("actuator_force_in", w, a)), 0.0))
  rp = lib.make_replay(ctx, kt, "mujoco_warp._src.forward:_qfrc_actuator", "jt", "goal", goal="checks.c03:goal_generic", env={"kind": "qfrc", "randomize_floats": 3})
  ctx.prove(sess, "J^T*force/increment", kt.atomic_total("qfrc_actuator_out", w2, c) == tot, names={"w": w, "a": a, "c": c, "w2": w2, "nnz": nnz, "rowadr": adr}, replay=rp, desc="_qfrc_actuator: the thread's contribution to qfrc_actuator[c] is not sum of moment[row entry with column c] * actuator_force")
  ctx.prove(sess, "J^T*force/no-plain-store", Not(kt.written("qfrc_actuator_out", w2, c, kinds=("W",))), names={"w": w}, replay=rp, desc="_qfrc_actuator stores non-atomically")
  k = forward._qfrc_actuator_gravcomp_limits
  kt = lib.kernel_thread(k, shapes={"jnt_actfrcrange": [1, None]}, cap=6, alias_inout=True, interp_kw={"interp": A.make_interp()()})
  w, dof = kt.tid
  j = kt.pre("dof_jntid", dof)
  rng = vec_pre(kt, "jnt_actfrcrange", 0, j)
  sess = ctx.session(kt.bg + [rng[0] <= rng[1]])
  ctx.reach(sess, "twin:limited+gravcomp", z3.And(kt.pre("jnt_actfrclimited", j), kt.pre("jnt_actgravcomp", j) != 0, kt.args["gravity_enabled"]))
  ref = A.joint_limit_ref(kt.pre("qfrc_actuator_in", w, dof), kt.pre("qfrc_gravcomp_in", w, dof), kt.pre("jnt_actgravcomp", j) != 0, kt.args["gravity_enabled"], kt.pre("jnt_actfrclimited", j), rng)
  rp = lib.make_replay(ctx, kt, "mujoco_warp._src.forward:_qfrc_actuator_gravcomp_limits", "lim", "goal", goal="checks.c03:goal_generic", env={"kind": "jntlimit", "randomize_floats": 4})
  A.prove_eq(ctx, sess, "gravcomp+joint-clamp", kt.post("qfrc_actuator_out", w, dof), ref, names={"w": w, "dof": dof, "jnt": j}, replay=rp, desc="_qfrc_actuator_gravcomp_limits: qfrc_actuator is not clamp(qfrc + [gravcomp if actuatorgravcomp and gravity enabled], jnt_actfrcrange)")



# ------------------------------------------------------------------------------------------------ _transmission


def goal_transmission(spec, pre, post):
  import mujoco

  w, a = spec["tid"][0], spec["tid"][1]
  tt = int(pre["actuator_trntype"][a])
  gear = [float(x) for x in pre["actuator_gear"][0, a]]
  adr0 = int(pre["moment_nnz"][w])
  if tt == A.TENDON:
    t = int(pre["actuator_trnid"][a][0])
    n, ra = int(pre["ten_J_rownnz"][t]), int(pre["ten_J_rowadr"][t])
    length = float(pre["ten_length_in"][w, t]) * gear[0]
    cols = [int(pre["ten_J_colind"][ra + k]) for k in range(n)]
    mom = [float(pre["ten_J_in"][w, ra + k]) * gear[0] for k in range(n)]
  else:
    j = int(pre["actuator_trnid"][a][0])
    jt, qa, da = int(pre["jnt_type"][j]), int(pre["jnt_qposadr"][j]), int(pre["jnt_dofadr"][j])
    width = {A.FREE: 7, A.BALL: 4}.get(jt, 1)
    q = [float(x) for x in pre["qpos_in"][w, qa : qa + width]]
    if jt in (A.FREE, A.BALL) and sum(x * x for x in (q[3:7] if jt == A.FREE else q)) < 1e-12:
      return True, "skipped: zero quaternion"
    length, mom = A.transmission_joint_ref(tt, jt, q, gear)
    cols = [da + k for k in range(len(mom))]
  ok = lib.approx(float(post["actuator_length_out"][w, a]), length) and int(post["moment_rownnz_out"][w, a]) == len(mom) and int(post["moment_rowadr_out"][w, a]) == adr0 and int(post["moment_nnz"][w]) == adr0 + len(mom)
  got_c = [int(post["moment_colind_out"][w, adr0 + k]) for k in range(len(mom))]
  got_m = [float(post["actuator_moment_out"][w, adr0 + k]) for k in range(len(mom))]
  ok = ok and got_c == cols and all(lib.approx(x, y) for x, y in zip(got_m, mom))
  return ok, f"length {post['actuator_length_out'][w, a]} (expected {length}), rownnz {post['moment_rownnz_out'][w, a]} rowadr {post['moment_rowadr_out'][w, a]} (expected {len(mom)} at {adr0}), colind {got_c} (expected {cols}), moment {got_m} (expected {mom})"


def unit_transmission(tname, jname):
  def run(ctx):
    from mujoco_warp._src import math as M, smooth

    k = smooth._transmission
    tt = {"joint": A.JOINT, "jointinparent": A.JOINTINPARENT, "tendon": A.TENDON}[tname]
    jt = {"free": A.FREE, "ball": A.BALL, "slide": A.SLIDE, "hinge": A.HINGE, "-": None}[jname]
    unroll = 3
    ctx.encode(k)
    ctx.bound(unroll=unroll, note=f"tendon Jacobian rows with at most {unroll} non-zeros; actuator_gear unbatched")
    ctx.assume("normalize, quat_to_vel, rot_vec_quat are uninterpreted functions shared with the reference (their own correctness: C23 contracts / C01)", "thread's own accesses in bounds (C17)")
    fixed = {"actuator_trntype": tt}
    if jt is not None:
      fixed["jnt_type"] = jt
    summ = {M.quat_to_vel.key: lambda it, fr, args: Vec([A.uf("quat_to_vel", args[0].c, i) for i in range(3)], (3,), "f"), M.rot_vec_quat.key: Q.s_rot_vec_quat}
    it = A.make_interp()(unroll=unroll, fixed=fixed, normalize_uf=True, summaries=summ)
    kt = lib.kernel_thread(k, shapes={"actuator_gear": [1, None]}, unroll=unroll, cap=12, interp_kw={"interp": it})
    w, a = kt.tid
    P = kt.pre
    gear = vec_pre(kt, "actuator_gear", 0, a)
    tid0 = kt.prev("actuator_trnid", a).c[0]
    adr0 = P("moment_nnz", w)
    pre = [P("actuator_trntype", a) == tt]
    if jt is not None:
      pre.append(P("jnt_type", tid0) == jt)
    sess = ctx.session(kt.bg + pre)
    ctx.reach(sess, "twin:reachable", True)
    names = {"w": w, "a": a, "trnid": tid0, "rowadr": adr0}
    loc = "mujoco_warp._src.smooth:_transmission"
    rp = lambda n: lib.make_replay(ctx, kt, loc, n, "goal", goal="checks.c03:goal_transmission", env={"randomize_floats": 2})
    tag = f"{tname}/{jname}"
    if tt == A.TENDON:
      n, ra = P("ten_J_rownnz", tid0), P("ten_J_rowadr", tid0)
      length = arith("*", P("ten_length_in", w, tid0), gear[0])
      cols = [P("ten_J_colind", ra + i) for i in range(unroll)]
      mom = [arith("*", P("ten_J_in", w, ra + i), gear[0]) for i in range(unroll)]
      nnz = n
      ctx.reach(sess, "twin:full-row", n == unroll)
    else:
      qa, da = P("jnt_qposadr", tid0), P("jnt_dofadr", tid0)
      width = {A.FREE: 7, A.BALL: 4}.get(jt, 1)
      length, mom = A.transmission_joint_ref(tt, jt, [P("qpos_in", w, qa + i) for i in range(width)], gear)
      cols = [da + i for i in range(len(mom))]
      nnz = len(mom)
    A.prove_eq(ctx, sess, "length", kt.post("actuator_length_out", w, a), length, names=names, replay=rp("length"), desc=f"_transmission ({tag}): actuator_length differs from MuJoCo's mj_transmission")
    ctx.prove(sess, "rownnz", kt.post("moment_rownnz_out", w, a) == nnz, names=names, replay=rp("rownnz"), desc=f"_transmission ({tag}): moment_rownnz wrong")
    ctx.prove(sess, "rowadr=old-counter", kt.post("moment_rowadr_out", w, a) == adr0, names=names, replay=rp("rowadr"), desc=f"_transmission ({tag}): moment_rowadr is not the row's slot allocated from the per-world counter")
    ctx.prove(sess, "counter+=rownnz", kt.atomic_total("moment_nnz", w) == nnz, names=names, replay=rp("counter"), desc=f"_transmission ({tag}): the non-zero counter is not advanced by the row length")
    for i in range(len(mom)):
      g = (i < nnz) if tt == A.TENDON else True
      ctx.prove(sess, f"colind[{i}]", kt.post("moment_colind_out", w, adr0 + i) == cols[i], g, names=names, replay=rp(f"col{i}"), desc=f"_transmission ({tag}): moment_colind[{i}] wrong")
      A.prove_eq(ctx, sess, f"moment[{i}]", kt.post("actuator_moment_out", w, adr0 + i), mom[i], g, names=names, replay=rp(f"mom{i}"), desc=f"_transmission ({tag}): actuator_moment[{i}] differs from MuJoCo's")
    undef_queries(ctx, sess, it, names, rp("init"), f"_transmission ({tag})")

  return (f"transmission/{tname}-{jname}", run)


def unit_transmission_reference(ctx):
  errs = A.validate_transmission(ctx.seed, 6 if ctx.tier == "quick" else 30)
  sess = ctx.session([])
  ctx.reach(sess, "twin:validated", True)
  for e in errs[:3]:
    ctx.error("transmission reference disagrees with mujoco (harness error): " + e[:400])



# ------------------------------------------------------------------------------------------------ fwd_actuation (H mode)

HMODELS = {
  "tendon2": """<mujoco><worldbody><body><joint name="j0" type="slide"/><geom size=".1"/></body>
<body pos="1 0 0"><joint name="j1" type="hinge"/><geom size=".1"/></body></worldbody>
<tendon><fixed name="t0" actuatorfrclimited="true" actuatorfrcrange="-1 1"><joint joint="j0" coef="1"/><joint joint="j1" coef="-.5"/></fixed></tendon>
<actuator><general tendon="t0" forcelimited="true" forcerange="-2 2" gainprm="1.5" biastype="affine" biasprm=".1 .2 .3"/>
<general tendon="t0" dyntype="filter" dynprm=".1" gainprm="2"/></actuator></mujoco>""",
  "jointlimit": """<mujoco><worldbody><body gravcomp="1"><joint name="j0" type="slide" axis="0 0 1" actuatorfrclimited="true" actuatorfrcrange="-1 1" actuatorgravcomp="true"/><geom size=".1"/>
<body pos=".3 0 0"><joint name="j1" type="hinge" axis="0 1 0" actuatorfrclimited="true" actuatorfrcrange="-1 1"/><geom size=".1" pos=".2 0 0"/></body></body></worldbody>
<actuator><general joint="j0" dyntype="integrator" actearly="true" actlimited="true" actrange="-1 1" gaintype="affine" gainprm="1 .5 .2" ctrllimited="true" ctrlrange="-1 1"/>
<motor joint="j1" gear="2"/><position joint="j1" kp="3"/></actuator></mujoco>""",
}
HSYM_M = {"actuator_forcerange", "actuator_forcelimited", "actuator_gainprm", "actuator_biasprm", "actuator_dynprm", "actuator_ctrlrange", "actuator_ctrllimited", "actuator_actrange", "actuator_actlimited",
          "actuator_actearly", "tendon_actfrcrange", "tendon_actfrclimited", "jnt_actfrcrange", "jnt_actfrclimited"}
HSYM_D = {"ctrl", "act", "actuator_length", "actuator_velocity", "actuator_moment", "qfrc_gravcomp", "act_dot", "actuator_force", "qfrc_actuator"}


def _hbuild(name):
  import mujoco

  import mujoco_warp as mjw

  mjm = mujoco.MjModel.from_xml_string(HMODELS[name])
  mjd = mujoco.MjData(mjm)
  mjd.qpos[:] = 0.1
  mujoco.mj_forward(mjm, mjd)
  m = mjw.put_model(mjm)
  d = mjw.put_data(mjm, mjd)
  mjw.forward(m, d)
  return mjm, mjd, m, d


def unit_fwd_actuation(name):
  def run(ctx):
    import mujoco
    from mujoco_warp._src import forward

    mjm, mjd, m, d = _hbuild(name)
    ctx.encode(forward.fwd_actuation)
    ctx.bound(model=name, nworld=1, nu=int(mjm.nu), nv=int(mjm.nv), ntendon=int(mjm.ntendon), note="model structure (types, ids, sparsity of the moment) concrete; all float inputs, limits and limit flags symbolic")
    ctx.assume("limited ranges lo <= hi", "_actuator_force is replaced by its contract proved in units actuator_force/*: actuator_force = forcerange clamp of the raw force-law value, which stays an opaque real per actuator")
    m2 = host.shim_dataclass(m, "m.", symbolic=lambda n: n.split(".")[-1] in HSYM_M and n.count(".") == 1)
    d2 = host.shim_dataclass(d, "d.", symbolic=lambda n: n.split(".")[-1] in HSYM_D and n.count(".") == 1)
    ma, da = host.arrays_of(m2), host.arrays_of(d2)
    nu, nv = int(mjm.nu), int(mjm.nv)
    RAW = [z3.Real(f"raw_force{i}") for i in range(nu)]
    ADOT = [z3.Real(f"act_dot{i}") for i in range(int(mjm.na))]

    def hook(hr, kernel, dim, args):
      # _actuator_force is replaced by its contract (units actuator_force/*): force = forcerange clamp of the raw force law value
      if kernel.func.__name__ != "_actuator_force":
        return None
      adot, frc = args[-2].ref.cell, args[-1].ref.cell
      fl, fr = ma["actuator_forcelimited"].ref.cell, ma["actuator_forcerange"].ref.cell
      for i in range(nu):
        frc.d[0][i] = A.forcerange_ref(RAW[i], fl.d0[0][i], [fr.d0[0][i], fr.d0[1][i]])
      for j in range(len(ADOT)):
        adot.d[0][j] = ADOT[j]
      return "skip"

    saved = host.Interp
    host.Interp = A.make_interp()
    try:
      with host.HostRun(mode="exec", on_launch=hook) as hr:
        forward.fwd_actuation(m2, d2)
    finally:
      host.Interp = saved
    for e in hr.events:
      if e.kind == "launch":
        ctx.encode(e.kernel)
    ctx.notes.append(f"{sum(1 for e in hr.events if e.kind == 'launch')} launches, {hr.nthreads} threads interpreted")

    def M(n, i, k=0):
      c = ma[n].ref.cell
      return c.d0[k][i]

    def D0(n, i):
      return da[n].ref.cell.d0[0][i]

    def D1(n, i):
      return da[n].ref.cell.d[0][i]

    noclamp = bool(mjm.opt.disableflags & mujoco.mjtDisableBit.mjDSBL_CLAMPCTRL)
    pre = [core.zbool(x) for x in hr.assumes]
    f_raw, adots = [], []
    for i in range(nu):
      adr, num = int(mjm.actuator_actadr[i]), int(mjm.actuator_actnum[i])
      last = adr + num - 1
      vec = lambda n, cnt: [M(n, i, k) for k in range(cnt)]
      p = dict(dyntype=int(mjm.actuator_dyntype[i]), gaintype=int(mjm.actuator_gaintype[i]), biastype=int(mjm.actuator_biastype[i]), ctrl=D0("ctrl", i), ctrllimited=M("actuator_ctrllimited", i),
               ctrlrange=vec("actuator_ctrlrange", 2), clampctrl_disabled=noclamp, act=D0("act", last) if adr >= 0 else 0.0, dynprm=vec("actuator_dynprm", 10), gainprm=vec("actuator_gainprm", 10),
               biasprm=vec("actuator_biasprm", 10), actlimited=M("actuator_actlimited", i), actrange=vec("actuator_actrange", 2), actearly=M("actuator_actearly", i), forcelimited=M("actuator_forcelimited", i),
               forcerange=vec("actuator_forcerange", 2), length=D0("actuator_length", i), velocity=D0("actuator_velocity", i), acc0=float(m.actuator_acc0.numpy()[0, i]), lengthrange=[float(x) for x in m.actuator_lengthrange.numpy()[0, i]],
               h=float(m.opt.timestep.numpy()[0]), skip_forcerange=True)  # concrete model values exactly as the kernels read them (float32)
      f_raw.append((RAW[i], p))
      for r in ("forcerange",):
        pre.append(core.zbool(cmp("<=", p[r][0], p[r][1])))
    ntendon = int(mjm.ntendon)
    total = [0.0] * ntendon
    on_tendon = {t: [] for t in range(ntendon)}
    for i in range(nu):
      if int(mjm.actuator_trntype[i]) == A.TENDON:
        t = int(mjm.actuator_trnid[i, 0])
        on_tendon[t].append(i)
        total[t] = arith("+", total[t], f_raw[i][0])
    for t in range(ntendon):
      pre.append(core.zbool(cmp("<=", M("tendon_actfrcrange", t, 0), M("tendon_actfrcrange", t, 1))))
    for j in range(int(mjm.njnt)):
      pre.append(core.zbool(cmp("<=", M("jnt_actfrcrange", j, 0), M("jnt_actfrcrange", j, 1))))
    force = []
    for i in range(nu):
      f, p = f_raw[i]
      if int(mjm.actuator_trntype[i]) == A.TENDON:
        t = int(mjm.actuator_trnid[i, 0])
        f = A.tendon_scale_ref(f, True, M("tendon_actfrclimited", t), total[t], [M("tendon_actfrcrange", t, 0), M("tendon_actfrcrange", t, 1)])
      force.append(A.forcerange_ref(f, p["forcelimited"], p["forcerange"]))
    sess = ctx.session(pre, timeout_ms=max(ctx.timeout_ms, 60000))
    ctx.reach(sess, "twin:pre-state", True)
    names = {}
    for i in range(nu):
      names[f"forcelimited{i}"] = f_raw[i][1]["forcelimited"]
      names[f"ctrl{i}"] = f_raw[i][1]["ctrl"]
    for t in range(ntendon):
      names[f"tendon_limited{t}"] = M("tendon_actfrclimited", t)
    rp = replay_fwd_actuation(ctx, name, ma, da)
    for i in range(nu):
      got = D1("actuator_force", i)
      t = int(mjm.actuator_trnid[i, 0]) if int(mjm.actuator_trntype[i]) == A.TENDON else None
      if t is None:
        A.prove_eq(ctx, sess, f"actuator_force.{i}", got, force[i], names=names, replay=rp, desc=f"fwd_actuation ({name}): actuator_force[{i}] differs from MuJoCo's mj_fwdActuation")
      else:
        bools = [M("tendon_actfrclimited", t)] + [f_raw[j][1]["forcelimited"] for j in on_tendon[t]]
        interacts = And(M("tendon_actfrclimited", t), Or(*[f_raw[j][1]["forcelimited"] for j in on_tendon[t]]))
        A.prove_eq_cases(ctx, sess, f"actuator_force.{i}/tendon-limit-xor-forcerange", got, force[i], bools, Not(interacts), names=names, replay=rp, desc=f"fwd_actuation ({name}): actuator_force[{i}] differs from MuJoCo's mj_fwdActuation")
        A.prove_eq_cases(ctx, sess, f"actuator_force.{i}/forcerange-before-tendon-limit", got, force[i], bools, interacts, names=names, replay=rp,
                         desc=f"fwd_actuation ({name}): an actuator with forcerange on a tendon with actuatorfrcrange: mujoco_warp clamps to forcerange first and then scales by the tendon limit, MuJoCo scales the unclamped forces by the tendon limit and clamps to forcerange afterwards")
    # qfrc_actuator = clamp(J^T f_impl + gravcomp): stated over the implementation's own actuator_force so that it is independent of the finding above
    rownnz, rowadr, colind = d.moment_rownnz.numpy()[0], d.moment_rowadr.numpy()[0], d.moment_colind.numpy()[0]
    grav_on = not bool(mjm.opt.disableflags & mujoco.mjtDisableBit.mjDSBL_GRAVITY)
    for kdof in range(nv):
      q = 0.0
      for i in range(nu):
        for e in range(int(rownnz[i])):
          if int(colind[rowadr[i] + e]) == kdof:
            q = arith("+", q, arith("*", D0("actuator_moment", int(rowadr[i]) + e), D1("actuator_force", i)))
      j = int(mjm.dof_jntid[kdof])
      ref = A.joint_limit_ref(q, D0("qfrc_gravcomp", kdof), bool(mjm.jnt_actgravcomp[j]), grav_on, M("jnt_actfrclimited", j), [M("jnt_actfrcrange", j, 0), M("jnt_actfrcrange", j, 1)])
      A.prove_eq(ctx, sess, f"qfrc_actuator.{kdof}", D1("qfrc_actuator", kdof), ref, names=names, replay=rp, desc=f"fwd_actuation ({name}): qfrc_actuator[{kdof}] is not clamp(moment^T actuator_force + actuator gravcomp, joint actuatorfrcrange)")

  return (f"fwd_actuation/{name}", run)


def replay_fwd_actuation(ctx, name, ma, da):
  """real mjw.fwd_actuation vs mujoco.mj_fwdActuation on the solver's inputs (both take actuator_length/velocity/moment as given)"""

  def _rp(model):
    import mujoco
    import warp as wp

    import mujoco_warp as mjw

    mjm, mjd, m, d = _hbuild(name)
    g = lambda x: float(Q.clipf(kh.mval(model, x), 50.0)) if core.is_sym(x) else float(x)
    b = lambda x: bool(kh.mval(model, x)) if core.is_sym(x) else bool(x)
    for n in HSYM_M:
      if "m." + n not in ma and n not in ma:
        continue
      cell = ma.get(n, ma.get("m." + n)).ref.cell
      arr = getattr(mjm, n)
      flat = np.array([[b(cell.d0[k][i]) if cell.dtype == "bool" else g(cell.d0[k][i]) for k in range(cell.ncomp)] for i in range(cell.size)])
      ncol = arr.reshape(arr.shape[0], -1).shape[1] if arr.size else 0
      if arr.size:
        arr.reshape(arr.shape[0], -1)[:, : min(ncol, flat.shape[1])] = flat.reshape(arr.shape[0], -1)[:, : min(ncol, flat.shape[1])]
    # realise the opaque raw force-law values: unit fixed gain, no bias, no ctrl/act clamps => raw force = ctrl (stateless) / act (stateful)
    mjm.actuator_gainprm[:] = 0
    mjm.actuator_gainprm[:, 0] = 1
    mjm.actuator_biasprm[:] = 0
    mjm.actuator_ctrllimited[:] = 0
    mjm.actuator_actlimited[:] = 0
    mjm.actuator_actearly[:] = 0
    for lim, rn in (("actuator_ctrllimited", "actuator_ctrlrange"), ("actuator_actlimited", "actuator_actrange"), ("actuator_forcelimited", "actuator_forcerange"), ("tendon_actfrclimited", "tendon_actfrcrange"), ("jnt_actfrclimited", "jnt_actfrcrange")):
      r = getattr(mjm, rn)
      r.sort(axis=1)
    m = mjw.put_model(mjm)
    mjd = mujoco.MjData(mjm)
    mjd.qpos[:] = 0.1
    mujoco.mj_forward(mjm, mjd)
    for n in ("ctrl", "act", "actuator_length", "actuator_velocity", "actuator_moment", "qfrc_gravcomp"):
      cell = da[n].ref.cell if n in da else None
      if cell is None or cell.size == 0:
        continue
      vals = np.array([g(x) for x in cell.d0[0]])
      getattr(mjd, n)[...] = vals.reshape(getattr(mjd, n).shape) if vals.size == getattr(mjd, n).size else vals[: getattr(mjd, n).size].reshape(getattr(mjd, n).shape)
    for i in range(mjm.nu):
      raw = g(z3.Real(f"raw_force{i}"))
      if mjm.actuator_actadr[i] >= 0:
        mjd.act[mjm.actuator_actadr[i] + mjm.actuator_actnum[i] - 1] = raw
      else:
        mjd.ctrl[i] = raw
    d = mjw.put_data(mjm, mjd)
    mjw.fwd_actuation(m, d)
    mujoco.mj_fwdActuation(mjm, mjd)
    out = {}
    bad = False
    for n in ("actuator_force", "act_dot", "qfrc_actuator"):
      a0, a1 = np.asarray(getattr(mjd, n), dtype=float), getattr(d, n).numpy()[0].astype(float)
      out[n] = {"mujoco": a0.tolist(), "mujoco_warp": a1.tolist()}
      bad = bad or not np.allclose(a0, a1, rtol=1e-3, atol=1e-4)
    out.update(xml=HMODELS[name], ctrl=mjd.ctrl.tolist(), act=mjd.act.tolist(), actuator_forcerange=mjm.actuator_forcerange.tolist(), actuator_forcelimited=mjm.actuator_forcelimited.tolist(),
               tendon_actfrcrange=mjm.tendon_actfrcrange.tolist(), tendon_actfrclimited=mjm.tendon_actfrclimited.tolist(), how="mjw.fwd_actuation(m, d) vs mujoco.mj_fwdActuation(m, d) with the same ctrl / act / actuator_length / velocity / moment")
    return bad, _save(f"fwd_actuation.{name}", out)

  return _rp


def main(tier, seed, only=None):
  import mujoco_warp  # noqa: imported once here so that the forked unit processes inherit the loaded modules
  from mujoco_warp._src import forward, smooth, support, util_misc  # noqa

  units = [("reference", unit_reference), ("lemma/clip", unit_lemma_clip)]
  units += [unit_muscle(x) for x in ("gain", "bias", "dynamics")]
  combos = list(itertools.product(DYN, GAIN, BIAS))
  if tier != "thorough":
    # quick: every dyntype with every gaintype, every dyntype with every biastype (pairwise), 18 + 12 specialisations
    combos = [c for c in combos if c[2] == "affine" or c[1] == "fixed"]
  units += [unit_actuator_force(*c) for c in combos]
  units += [unit_next_activation(d, 2 if tier != "thorough" else 3) for d in DYN if d != "none"]
  units += [("tendon_limit", unit_tendon_limit), ("qfrc_actuator", unit_qfrc), ("transmission/reference", unit_transmission_reference)]
  units += [unit_transmission(t, j) for t in ("joint", "jointinparent") for j in ("free", "ball", "slide", "hinge")] + [unit_transmission("tendon", "-")]
  units += [unit_fwd_actuation(n) for n in HMODELS]
  if only:
    units = [u for u in units if any(o in u[0] for o in only)]
  return report.run_check(PID, units, tier, seed)
