"""C08 Time integration agrees with MuJoCo C.

 reference            the reference Euler(+implicit damping) / RK4 / advance models re-run with mujoco's own mj_forward as dynamics
                      oracle reproduce mujoco.mj_step (harness validation, numeric)
 quat_integrate       math.quat_integrate == mju_quatIntegrate for q != 0 (compositional: callee contracts of C23);  `zero-quat`:
                      the same query for q = 0 (MuJoCo normalises 0 to the identity, Warp to (0,0,0,1))
 next_velocity, next_position/*, next_activation/*, next_time, damping      exact differential per kernel (K mode)
 advance/*            H mode: the REAL _advance on a small model, all state symbolic: act, qvel, qpos (integrated with the NEW
                      velocity unless a velocity is passed), time, warm start == mj_advance
 euler/*, implicit/*  H mode: branch taken for each integrator / disable flag, damping assembly M + h*dD/dv on the diagonal,
                      the linear solve is an uninterpreted function of (matrix, rhs), then == mj_advance with that acceleration
 rk4/*                H mode: the REAL rungekutta4 with forward() replaced by an uninterpreted function of (time,) qpos, qvel, act:
                      next state == mj_RungeKutta (tableau 1/2,1/2,1; weights 1/6,1/3,1/3,1/6; stage times t+h/2, t+h/2, t+h;
                      plain Euler activations in the stages; final mj_advance)
Outside: the numerical factor/solve (C21), the derivative assembly of the implicit integrators (deriv_smooth_vel / deriv_rne_vel),
float32 rounding, solver tolerance, sleeping, history buffers.
"""

import json
import os
import sys

import numpy as np
import z3

from checks import act_c03 as A
from checks import c03, c23, lib
from checks import int_c08 as I
from checks import quat_c23 as Q
from wsym import core, host, kh, report
from wsym.core import And, Implies, Not, Or, Vec, arith, cmp, ite

PID = "C08"
R = z3.RealSort()
sys.set_int_max_str_digits(0)
if not getattr(kh.mval, "_safe", False):
  kh.mval = A.safe_mval(kh.mval)
  kh.mval._safe = True


def _save(name, obj):
  d = os.path.join(report.VERIF, "replays", PID)
  os.makedirs(d, exist_ok=True)
  p = os.path.join(d, name.replace("/", "_") + ".json")
  with open(p, "w") as f:
    json.dump(obj, f, indent=1, default=str)
  return p


def unit_reference(ctx):
  errs = I.validate(ctx.seed)
  sess = ctx.session([])
  ctx.reach(sess, "twin:validated", True)
  ctx.notes.append(f"reference RK4 (4 steps, free+ball+hinge+slide, filterexact/integrator/delayed actuators) and Euler (+polynomial damping, EULERDAMP on/off) vs mujoco.mj_step: {len(errs)} mismatches")
  for e in errs[:3]:
    ctx.error("integration reference disagrees with mujoco (harness error): " + e[:400])


# ------------------------------------------------------------------------------------------------ quat_integrate parity


def unit_quat_integrate(ctx):
  import mujoco
  from mujoco_warp._src import math as M

  ctx.encode(M.quat_integrate)
  ctx.assume("normalize / mul_quat / axis_angle_to_quat are shared uninterpreted functions constrained by their contracts (C23 contract/*): |normalize(x)| = 1 for x != 0, normalize(x) = x for |x| = 1, |a*b|^2 = |a|^2|b|^2, axis_angle of a unit axis is unit",
             "mju_quatIntegrate(q, v, h) = mulQuat(normalize4(q), axisAngle2Quat(normalize3(v), h*|v|)) with normalize4(0) = (1,0,0,0)")
  def NORM(x):
    return Vec([A.uf(f"normalize{len(x.c)}", x.c, k) for k in range(len(x.c))], x.shape, x.dt)

  def MUL(a, b):
    return Vec([A.uf("mul_quat", list(a.c) + list(b.c), k) for k in range(4)], (4,), "quat")

  def AA(ax, ang):
    return Vec([A.uf("axis_angle_to_quat", list(ax.c) + [ang], k) for k in range(4)], (4,), "quat")

  q, v, dt = c23.qv("q"), c23.qv("v", 3, "f"), z3.Real("dt")

  def encode(N):
    """-> (result, reference, facts) with |.|^2 given by N (polynomial for the proofs, uninterpreted for the model searches)"""
    facts = []
    Z = (lambda x: N(x) == 0) if N is Q.sq else Q.is_zero

    class QInterp(Q.CInterp):
      def builtin(self, fr, key, args, e):
        if key == "normalize" and isinstance(args[0], Vec):
          x = args[0]
          n = NORM(x)
          zero = [0, 0, 0, 1] if x.dt == "quat" else [0] * len(x.c)
          facts.append(z3.Implies(N(x) != 0, N(n) == 1))
          facts.append(z3.Implies(N(x) == 1, z3.And(*[a == b for a, b in zip(n.c, x.c)])))
          facts.append(z3.Implies(Z(x), z3.And(*[a == b for a, b in zip(n.c, zero)])))
          return n
        return super().builtin(fr, key, args, e)

    def mulfact(o, a, b):
      if N is Q.sq:
        facts.append(N(o) == N(a) * N(b))
      else:  # multiplication-free consequence of |a*b|^2 = |a|^2 |b|^2 (C23 contract/mul_quat)
        facts.append(z3.Implies(z3.And(N(a) == 1, N(b) == 1), N(o) == 1))

    def s_mul(it, fr, args):
      o = MUL(*args)
      mulfact(o, args[0], args[1])
      return o

    def s_aa(it, fr, args):
      o = AA(*args)
      facts.append(z3.Implies(z3.Or(N(args[0]) == 1, z3.And(Q.is_zero(args[0]), core.zbool(cmp("==", args[1], 0)))), N(o) == 1))
      return o

    it = QInterp(summaries={M.mul_quat.key: s_mul, M.axis_angle_to_quat.key: s_aa})
    it, r = kh.run(M.quat_integrate, [q, v, dt], interp=it)
    # reference: MuJoCo normalises a zero quaternion to the identity; the angle is the implementation's own term dt*|v|
    nq = NORM(q)
    qzero = Z(q)
    nq_ref = Vec([ite(qzero, z, c) for c, z in zip(nq.c, [1.0, 0.0, 0.0, 0.0])], (4,), "quat")
    apps = _find_apps(r, "axis_angle_to_quat#0")
    if not apps:
      return None
    aa = AA(NORM(v), apps[0].arg(3))
    ref = MUL(nq_ref, aa)
    mulfact(ref, nq_ref, aa)
    if N is not Q.sq:  # |x|^2 = 0 <=> x = 0 for the two inputs
      facts += [(N(q) == 0) == Q.is_zero(q), (N(v) == 0) == Q.is_zero(v)]
    return r, ref, list(it.assumes) + facts

    it = None

  enc = encode(Q.nsq_uf)
  if enc is None:
    ctx.error("quat_integrate no longer calls axis_angle_to_quat")
    return
  r, ref, bg = enc
  sess = ctx.session(bg)
  r2, ref2, sess2 = r, ref, sess
  ctx.reach(sess2, "twin:unnormalised", And(q.c[0] == 2, q.c[1] == 0, q.c[2] == 0, q.c[3] == 0, v.c[0] == 1, v.c[1] == 0, v.c[2] == 0, dt == 1))
  N = Q.nsq_uf
  names = {f"q{k}": q.c[k] for k in range(4)} | {f"v{k}": v.c[k] for k in range(3)} | {"dt": dt}

  def rp(model):
    qq, vv, h = Q.clipf(kh.mval(model, q)), Q.clipf(kh.mval(model, v)), float(Q.clipf(kh.mval(model, dt), 10))
    got = Q.real("quat_integrate", qq, vv, h)
    want = np.array(I.quat_integrate_num(qq, vv, h))
    path = _save("quat_integrate", {"q": qq.tolist(), "v": vv.tolist(), "dt": h, "mujoco_warp": got.tolist(), "mujoco": want.tolist(), "how": "math.quat_integrate (compiled) vs mujoco.mju_quatIntegrate"})
    return (not np.allclose(got, want, rtol=1e-3, atol=1e-4)), path

  for k in range(4):
    ctx.prove(sess, f"q!=0/component{k}", r.c[k] == ref.c[k], N(q) != 0, names=names, replay=rp, desc="quat_integrate differs from mju_quatIntegrate")
  ctx.prove(sess2, "zero-quat", And(*[r2.c[k] == ref2.c[k] for k in range(4)]), Q.is_zero(q), names=names, replay=rp,
            desc="zero quaternion in qpos: mujoco_warp's wp.normalize maps it to (0,0,0,1) (a rotation by pi about z in MuJoCo's wxyz layout), MuJoCo's mju_normalize4 maps it to the identity (1,0,0,0)")


def _find_apps(vec, name):
  out, seen = [], set()

  def walk(e):
    if e.get_id() in seen:
      return
    seen.add(e.get_id())
    if z3.is_app(e):
      if e.decl().name() == name:
        out.append(e)
      for c in e.children():
        walk(c)

  for c in vec.c:
    if core.is_sym(c):
      walk(c)
  return out


# ------------------------------------------------------------------------------------------------ small kernels (K mode)


def goal_small(spec, pre, post):
  e = spec["env"]
  w, i = spec["tid"][0], (spec["tid"][1] if len(spec["tid"]) > 1 else 0)
  ts = pre["opt_timestep"]
  h = float(ts[w % len(ts)]) if len(ts) else 0.0
  if e["kind"] == "velocity":
    want = float(pre["qvel_in"][w, i]) + float(spec["args"]["qacc_scale_in"]["scalar"]) * float(pre["qacc_in"][w, i]) * h
    got = float(post["qvel_out"][w, i])
    return lib.approx(got, want), f"qvel[{w},{i}] = {got}, expected qvel + scale*h*qacc = {want}"
  if e["kind"] == "time":
    want = float(pre["time_in"][w]) + h
    got = float(post["time_out"][w])
    return lib.approx(got, want), f"time[{w}] = {got}, expected {want}"
  if e["kind"] == "damp_deriv":
    want = I.damping_deriv_ref(float(pre["dof_damping"][0, i]), [float(x) for x in pre["dof_dampingpoly"][0, i]], float(pre["qvel_in"][w, i]))
    got = float(post["deriv_out"][w, i])
    return lib.approx(got, want), f"damping derivative[{w},{i}] = {got}, expected {want}"
  if e["kind"] == "damp_M":
    if len(pre["M_rownnz"]) <= i or len(pre["M_rowadr"]) <= i:
      return False, "the kernel does not read M_rowadr / M_rownnz of its dof: it cannot address the diagonal entry (last entry of the CSR row)"
    adr = int(pre["M_rowadr"][i]) + int(pre["M_rownnz"][i]) - 1
    d = post["M_integration_out"].astype(float) - pre["M_integration_out"].astype(float)
    want = np.zeros_like(d)
    want[w, adr] = h * float(pre["damp_deriv"][w, i])
    return bool(np.allclose(d, want, rtol=1e-4, atol=1e-6)), f"M increments {d.tolist()} expected {want.tolist()}"
  return True, "?"


def unit_small(ctx):
  from mujoco_warp._src import forward

  ctx.assume("thread's own accesses in bounds (C17)", "batched model fields with first dimension 1 (C09)")
  AI = A.make_interp()
  # velocity
  k = forward._next_velocity
  ctx.encode(k, forward._next_time_builder(False), forward._compute_damping_deriv, forward._euler_damp_qfrc)
  for alias in (True, False):
    kt = lib.kernel_thread(k, alias_inout=alias, cap=4, interp_kw={"interp": AI()})
    w, i = kt.tid
    h = kt.pre("opt_timestep", arith("%", w, kt.cell("opt_timestep").shape[0]))
    sess = ctx.session(kt.bg)
    ctx.reach(sess, f"twin:velocity/{alias}", True)
    rp = lib.make_replay(ctx, kt, "mujoco_warp._src.forward:_next_velocity", f"vel{alias}", "goal", goal="checks.c08:goal_small", env={"kind": "velocity", "randomize_floats": 2})
    tag = "inplace" if alias else "separate"
    sc_, qa_, qv_ = kt.args["qacc_scale_in"], kt.pre("qacc_in", w, i), kt.pre("qvel_in", w, i)
    nice = [h >= z3.RealVal("1/100"), h <= z3.RealVal("1/10"), sc_ == z3.RealVal("1/2"), qa_ >= 1, qa_ <= 4, qv_ >= -2, qv_ <= 2]
    A.prove_nice(ctx, sess, f"next_velocity/{tag}", kt.post("qvel_out", w, i) == qv_ + sc_ * qa_ * h, nice=nice, names={"w": w, "i": i, "scale": sc_, "h": h}, replay=rp, desc="_next_velocity: qvel_next != qvel + scale*h*qacc")
    w2, i2 = z3.Int("w2"), z3.Int("i2")
    ctx.prove(sess, f"next_velocity/{tag}/frame", Implies(kt.written("qvel_out", w2, i2), z3.And(w2 == w, i2 == i)), names={"w": w, "i": i}, replay=rp, desc="_next_velocity writes another dof")
  # time
  k = forward._next_time_builder(False)
  kt = lib.kernel_thread(k, alias_inout=True, cap=4, interp_kw={"interp": AI()})
  w = kt.tid
  h = kt.pre("opt_timestep", arith("%", w, kt.cell("opt_timestep").shape[0]))
  sess = ctx.session(kt.bg)
  ctx.reach(sess, "twin:time", True)
  rp = lib.make_replay(ctx, kt, "mujoco_warp._src.forward:_next_time_builder(False)", "time", "goal", goal="checks.c08:goal_small", env={"kind": "time", "randomize_floats": 2})
  ctx.prove(sess, "next_time/time+=h", kt.post("time_out", w) == kt.pre("time_in", w) + h, names={"w": w}, replay=rp, desc="_next_time: time_next != time + timestep")
  w2 = z3.Int("w2")
  ctx.prove(sess, "next_time/frame", Implies(kt.written("time_out", w2), w2 == w), names={"w": w}, replay=rp, desc="_next_time writes another world's time")
  # damping derivative and assembly
  k = forward._compute_damping_deriv
  kt = lib.kernel_thread(k, shapes={"dof_damping": [1, None], "dof_dampingpoly": [1, None]}, cap=4, interp_kw={"interp": AI()})
  w, i = kt.tid
  sess = ctx.session(kt.bg)
  ctx.reach(sess, "twin:damp", True)
  ref = I.damping_deriv_ref(kt.pre("dof_damping", 0, i), c03.vec_pre(kt, "dof_dampingpoly", 0, i), kt.pre("qvel_in", w, i))
  rp = lib.make_replay(ctx, kt, "mujoco_warp._src.forward:_compute_damping_deriv", "dderiv", "goal", goal="checks.c08:goal_small", env={"kind": "damp_deriv", "randomize_floats": 3})
  A.prove_eq(ctx, sess, "damping/derivative", kt.post("deriv_out", w, i), ref, names={"w": w, "i": i}, replay=rp, desc="_compute_damping_deriv: not damping + 2*poly0*|v| + 3*poly1*v^2")
  k = forward._euler_damp_qfrc
  kt = lib.kernel_thread(k, cap=6, interp_kw={"interp": AI()})
  w, i = kt.tid
  h = kt.pre("opt_timestep", arith("%", w, kt.cell("opt_timestep").shape[0]))
  diag = kt.pre("M_rowadr", i) + kt.pre("M_rownnz", i) - 1
  w2, c = z3.Int("w2"), z3.Int("c")
  sess = ctx.session(kt.bg)
  ctx.reach(sess, "twin:dampM", True)
  rp = lib.make_replay(ctx, kt, "mujoco_warp._src.forward:_euler_damp_qfrc", "dM", "goal", goal="checks.c08:goal_small", env={"kind": "damp_M", "randomize_floats": 2})
  ctx.prove(sess, "damping/M-diagonal+=h*D", kt.atomic_total("M_integration_out", w2, c) == ite(z3.And(w2 == w, c == diag), h * kt.pre("damp_deriv", w, i), 0.0), names={"w": w, "i": i, "c": c, "w2": w2}, replay=rp,
            desc="_euler_damp_qfrc: h*dD/dv is not added exactly to the diagonal entry of the dof's row (last entry of the CSR row)")
  ctx.prove(sess, "damping/no-plain-store", Not(kt.written("M_integration_out", w2, c, kinds=("W",))), names={"w": w}, replay=rp, desc="_euler_damp_qfrc overwrites M")


# ------------------------------------------------------------------------------------------------ _next_position (parity)


def goal_next_position(spec, pre, post):
  """parity replay goal: the slots written by the real kernel vs mj_integratePos on the same inputs (mujoco.mju_quatIntegrate)"""
  w, j = spec["tid"][0], spec["tid"][1]
  jt, qa, da = int(pre["jnt_type"][j]), int(pre["jnt_qposadr"][j]), int(pre["jnt_dofadr"][j])
  ts = pre["opt_timestep"]
  h = float(ts[w % len(ts)])
  scale = float(spec["args"]["qvel_scale_in"]["scalar"])
  qin, qout, vel = pre["qpos_in"][w].astype(float), post["qpos_out"][w].astype(float), pre["qvel_in"][w].astype(float) * scale
  want = np.array(I.integrate_pos([(jt, qa, da)], list(qin), list(vel), h, I.quat_integrate_num), dtype=float)
  width = {I.FREE: 7, I.BALL: 4}.get(jt, 1)
  if jt in (I.FREE, I.BALL):
    qq = qin[qa + (3 if jt == I.FREE else 0) :][:4]
    if float(qq @ qq) < 1e-12:
      return True, "skipped: zero quaternion (reported separately: quat_integrate:zero-quat)"
  ok = bool(np.allclose(qout[qa : qa + width], want[qa : qa + width], rtol=1e-3, atol=2e-4))
  msg = f"joint type {jt}: qpos[{qa}:{qa + width}] = {qout[qa : qa + width].tolist()}, mj_integratePos(qpos, qvel*{scale}, h={h}) = {want[qa : qa + width].tolist()}"
  before, after = pre["qpos_out"], post["qpos_out"]
  for ww in range(after.shape[0]):
    for i in range(after.shape[1]):
      if (ww != w or not (qa <= i < qa + width)) and after[ww, i] != before[ww, i]:
        ok = False
        msg += f"; qpos[{ww},{i}] changed {before[ww, i]} -> {after[ww, i]} (outside the joint's slots)"
  return ok, msg


def unit_next_position(alias):
  def run(ctx):
    from mujoco_warp._src import forward, math as M, types

    k = forward._next_position
    ctx.encode(k, M.quat_integrate)
    ctx.assume("quat_integrate is an uninterpreted function shared with the reference (unit quat_integrate: equal to mju_quatIntegrate for q != 0)", "thread's own accesses in bounds (C17)", "jnt_type in {FREE, BALL, SLIDE, HINGE}")
    ctx.bound(shape_cap=12, aliasing="qpos_in is qpos_out" if alias else "qpos_in and qpos_out distinct arrays (RK4 stage)")
    it = Q.CInterp(summaries=Q.summaries("quat_integrate"), norm="uf")
    kt = lib.kernel_thread(k, alias_inout=alias, cap=12, interp_kw={"interp": it})
    w, j = kt.tid
    JT = types.JointType
    T, qa, da = kt.pre("jnt_type", j), kt.pre("jnt_qposadr", j), kt.pre("jnt_dofadr", j)
    ts = kt.pre("opt_timestep", arith("%", w, kt.cell("opt_timestep").shape[0]))
    scale = kt.args["qvel_scale_in"]
    qp = lambda i: kt.pre("qpos_in", w, arith("+", qa, i))
    qn = lambda i: kt.post("qpos_out", w, arith("+", qa, i))
    vel = lambda i: kt.pre("qvel_in", w, arith("+", da, i))
    sess = ctx.session(kt.bg + [z3.Or(*[T == int(x) for x in (JT.FREE, JT.BALL, JT.SLIDE, JT.HINGE)])])
    loc = "mujoco_warp._src.forward:_next_position"
    names = {"w": w, "j": j, "type": T, "qposadr": qa, "dofadr": da, "scale": scale, "h": ts}
    rp = lambda n: lib.make_replay(ctx, kt, loc, n, "goal", goal="checks.c08:goal_next_position", env={"randomize_floats": 3})
    half = z3.RealVal("1/2")
    # well-conditioned region for counterexamples: h in [0.01, 0.1], scale = 1/2 (an RK4 stage), velocities of magnitude in [1/2, 2], unit quaternion
    nice = [ts >= z3.RealVal("1/100"), ts <= z3.RealVal("1/10"), scale == half]
    for i in range(6):
      nice += [z3.Or(z3.And(vel(i) >= half, vel(i) <= 2), z3.And(vel(i) <= -half, vel(i) >= -2))]
    for i in range(3):
      nice += [qp(i) >= -2, qp(i) <= 2]
    for nm, tv, off in (("free", int(JT.FREE), 3), ("ball", int(JT.BALL), 0)):
      ctx.reach(sess, f"twin:{nm}", T == tv)
      qin = Vec([qp(off + i) for i in range(4)], (4,), "quat")
      vin = Vec([arith("*", vel(off + i), scale) for i in range(3)], (3,), "f")
      ref = Q.qi_uf(qin, vin, ts)
      nq = nice + [qp(off + i) == half for i in range(4)]
      for i in range(4):
        A.prove_nice(ctx, sess, f"{nm}/quat-slot.{i}=mju_quatIntegrate", qn(off + i) == ref.c[i], T == tv, nice=nq, names=names, replay=rp(f"{nm}.slot{i}"), desc=f"_next_position ({nm} joint): quaternion slot {i} is not mju_quatIntegrate(q, w*scale, h)[{i}]")
    for i in range(3):
      A.prove_nice(ctx, sess, f"free/pos.{i}", qn(i) == qp(i) + ts * vel(i) * scale, T == int(JT.FREE), nice=nice + [qp(3 + k) == half for k in range(4)], names=names, replay=rp(f"free.pos{i}"), desc="_next_position (free joint): translational slot is not pos + h*v*scale")
    scalar = z3.Or(T == int(JT.SLIDE), T == int(JT.HINGE))
    ctx.reach(sess, "twin:scalar", scalar)
    A.prove_nice(ctx, sess, "scalar/qpos+h*qvel", qn(0) == qp(0) + ts * vel(0) * scale, scalar, nice=nice, names=names, replay=rp("scalar"), desc="_next_position (slide/hinge): qpos_next != qpos + h*qvel*scale")
    w2, i2 = z3.Int("w2"), z3.Int("i2")
    width = z3.If(T == int(JT.FREE), 7, z3.If(T == int(JT.BALL), 4, 1))
    inside = z3.And(w2 == w, i2 >= qa, i2 < qa + width)
    ctx.prove(sess, "frame/only-own-slots-written", Implies(kt.written("qpos_out", w2, i2), inside), names=dict(names, w2=w2, i2=i2), replay=rp("frame"), desc="_next_position writes a qpos cell outside the joint's own slots")
    ctx.prove(sess, "frame/all-own-slots-written", kt.written("qpos_out", w2, i2), inside, names=dict(names, w2=w2, i2=i2), replay=rp("frame2"), desc="_next_position leaves one of the joint's qpos slots unwritten")

  return (f"next_position/{'inplace' if alias else 'separate'}", run)


# ------------------------------------------------------------------------------------------------ host mode

HXML = {
  "mix": """<mujoco><option integrator="{integ}" timestep="0.01">{flags}</option><worldbody>
<body pos="0 0 1"><joint name="b" type="ball" damping=".05"/><geom size=".1" pos=".1 0 0"/>
 <body pos=".3 0 0"><joint name="h" type="hinge" axis="0 1 0" damping=".3"/><geom size=".1" pos=".1 0 0"/>
  <body pos=".3 0 0"><joint name="s" type="slide" axis="1 0 0" damping=".2"/><geom size=".1"/></body></body></body></worldbody>
<actuator><general joint="h" dyntype="filter" dynprm="0.03" gainprm="2" actlimited="true" actrange="-.4 .4"/>
<general joint="s" dyntype="integrator" gainprm="1.5"/></actuator></mujoco>""",
  "fexact": """<mujoco><option integrator="{integ}" timestep="0.01">{flags}</option><worldbody>
<body><joint name="h" type="hinge" axis="0 1 0" damping=".3"/><geom size=".1" pos=".1 0 0"/></body></worldbody>
<actuator><general joint="h" dyntype="filterexact" dynprm="0.03" gainprm="2"/></actuator></mujoco>""",
  "delay": """<mujoco><option integrator="{integ}" timestep="0.01">{flags}</option><worldbody>
<body><joint name="h" type="hinge" axis="0 1 0" damping=".3"/><geom size=".1" pos=".1 0 0"/></body></worldbody>
<actuator><motor joint="h" delay="0.015" nsample="4"/></actuator></mujoco>""",
}
STATE = ("qpos", "qvel", "act", "time", "qacc_warmstart")
SYM_D = {"qpos", "qvel", "act", "act_dot", "time", "qacc", "qacc_warmstart", "M", "efc.Ma"}


def build(model, integ="Euler", flags=""):
  import mujoco

  import mujoco_warp as mjw

  xml = HXML[model].format(integ=integ, flags=flags)
  mjm = mujoco.MjModel.from_xml_string(xml)
  mjd = mujoco.MjData(mjm)
  mujoco.mj_forward(mjm, mjd)
  m, d = mjw.put_model(mjm), mjw.put_data(mjm, mjd)
  return xml, mjm, m, d


def shim(d):
  d2 = host.shim_dataclass(d, "d.", symbolic=lambda n: n[2:] in SYM_D)
  return d2, host.arrays_of(d2)


def cells(arrs, name, post=False):
  c = arrs[name].ref.cell
  return list((c.d if post else c.d0)[0])


def info_of(mjm, m):
  """model description for the reference, with the constants exactly as the kernels read them (float32)"""
  info = I.model_info(mjm)
  dynprm = m.actuator_dynprm.numpy()[0]
  rng = m.actuator_actrange.numpy()[0]
  acts = []
  for i in range(mjm.nu):
    adr, num = int(mjm.actuator_actadr[i]), int(mjm.actuator_actnum[i])
    if adr >= 0:
      acts.append((int(mjm.actuator_dyntype[i]), float(dynprm[i][0]), bool(mjm.actuator_actlimited[i]), [float(x) for x in rng[i]], list(range(adr, adr + num))))
  info["acts"] = acts
  return info, float(m.opt.timestep.numpy()[0])


def qi_sym(q, v, h):
  return list(Q.qi_uf(Vec(list(q), (4,), "quat"), Vec(list(v), (3,), "f"), h).c)


class Run:
  """runs a real host function in H exec mode with the quaternion-contract interpreter"""

  def __init__(self, on_launch=None):
    self.on_launch = on_launch

  def __enter__(self):
    self.saved = host.Interp
    host.Interp = A.make_interp(Q.CInterp)
    self.hr = host.HostRun(mode="exec", on_launch=self.on_launch, interp_kw={"summaries": Q.summaries("quat_integrate"), "norm": "uf"})
    return self.hr.__enter__()

  def __exit__(self, *a):
    host.Interp = self.saved
    return self.hr.__exit__(*a)


def api_replay(model, integ, flags="", nstep=3, what=STATE[:4]):
  """public-API replay: mjw.step vs mujoco.mj_step from a random state"""

  def _rp(zmodel):
    import mujoco

    import mujoco_warp as mjw

    xml, mjm, m, d = build(model, integ, flags)
    rng = np.random.default_rng(1)
    mjd = mujoco.MjData(mjm)
    mjd.qvel[:] = rng.normal(size=mjm.nv) * 2.0
    mjd.act[:] = rng.normal(size=mjm.na) * 0.3
    d = mjw.put_data(mjm, mjd)
    out, bad = [], False
    for s in range(nstep):
      c = rng.normal(size=mjm.nu) + s
      mjd.ctrl[:] = c
      d.ctrl.assign(c.reshape(1, -1).astype(np.float32))
      mujoco.mj_step(mjm, mjd)
      mjw.step(m, d)
      row = {}
      for f in what:
        a, b = np.atleast_1d(np.asarray(getattr(mjd, f), dtype=float)), getattr(d, f).numpy()[0].astype(float).reshape(-1)
        row[f] = {"mujoco": a.tolist(), "mujoco_warp": b.tolist()}
        bad = bad or not np.allclose(a, b, rtol=3e-4, atol=3e-5)
      out.append(row)
    return bad, _save(f"api.{model}.{integ}.{flags.replace(' ', '').replace('/', '').replace('<', '').replace('>', '').replace(chr(34), '')}", {"xml": xml, "steps": out, "how": "random qvel/act/ctrl (numpy default_rng(1)), mjw.step vs mujoco.mj_step"})

  return _rp


def warm_replay(model, integ="Euler", flags=""):
  """real _advance with an acceleration argument different from d.qacc: the warm start must be d.qacc"""

  def _rp(zmodel):
    import warp as wp

    import mujoco_warp as mjw
    from mujoco_warp._src import forward

    xml, mjm, m, d = build(model, integ, flags)
    mjw.forward(m, d)
    qacc0 = d.qacc.numpy().copy()
    arg = wp.array((qacc0 + 1.0 + np.arange(qacc0.shape[1])).astype(np.float32), dtype=float)
    forward._advance(m, d, arg)
    got = d.qacc_warmstart.numpy()
    return (not np.allclose(got, qacc0, rtol=1e-5, atol=1e-6)), _save(f"warmstart.{model}", {"xml": xml, "d.qacc": qacc0.tolist(), "qacc argument": arg.numpy().tolist(), "qacc_warmstart after _advance": got.tolist()})

  return _rp


def compare_state(ctx, sess, prefix, arrs, ref, warm, replay, desc, names=None, wreplay=None):
  for f in STATE[:4]:
    got = cells(arrs, f, post=True)
    want = ref[f] if f != "time" else [ref["time"]]
    for k, (g, wv) in enumerate(zip(got, want)):
      A.prove_eq(ctx, sess, f"{prefix}{f}.{k}", g, wv, names=names or {}, replay=replay, desc=f"{desc}: {f}[{k}] after the step differs from MuJoCo")
  if warm is not None:
    for k, (g, wv) in enumerate(zip(cells(arrs, "qacc_warmstart", post=True), warm)):
      A.prove_eq(ctx, sess, f"{prefix}qacc_warmstart.{k}", g, wv, names=names or {}, replay=wreplay or replay, desc=f"{desc}: qacc_warmstart[{k}] is not the last computed acceleration")


def unit_advance(given_qvel):
  def run(ctx):
    from mujoco_warp._src import forward

    xml, mjm, m, d = build("mix")
    ctx.encode(forward._advance, forward._next_activation, forward._next_velocity, forward._next_position)
    ctx.bound(model="mix (ball + hinge + slide, filter + integrator actuators)", nworld=1)
    ctx.assume("quat_integrate is an uninterpreted function shared with the reference (unit quat_integrate)", "actrange lo <= hi")
    d2, arrs = shim(d)
    qacc = host.sym_array("qacc_arg", (1, mjm.nv), float)
    qv = host.sym_array("qvel_arg", (1, mjm.nv), float) if given_qvel else None
    with Run() as hr:
      forward._advance(m, d2, qacc, qv)
    info, h = info_of(mjm, m)
    st = {f: cells(arrs, f) for f in ("qpos", "qvel", "act")}
    st["time"] = cells(arrs, "time")[0]
    ref = I.advance_ref(info, st, cells(arrs, "act_dot"), list(qacc.ref.cell.d0[0]), list(qv.ref.cell.d0[0]) if given_qvel else None, h, qi_sym)
    sess = ctx.session([core.zbool(a) for a in hr.assumes])
    ctx.reach(sess, "twin:state", True)
    compare_state(ctx, sess, "", arrs, ref, cells(arrs, "qacc"), api_replay("mix", "Euler", '<flag eulerdamp="disable"/>'), "_advance", wreplay=warm_replay("mix"))

  return (f"advance/{'given-qvel' if given_qvel else 'new-qvel'}", run)


class Stubs:
  """uninterpreted replacements for the linear solves / derivative assembly, recording what they were called with"""

  def __init__(self):
    self.calls = []

  def install(self, forward):
    from mujoco_warp._src import derivative, smooth

    self.saved = [(smooth, "factor_solve_i", smooth.factor_solve_i), (smooth, "factor_solve_lu", smooth.factor_solve_lu), (derivative, "deriv_smooth_vel", derivative.deriv_smooth_vel), (derivative, "deriv_rne_vel", derivative.deriv_rne_vel)]
    stubs = self

    def solve_out(x, name, mat, rhs):
      ins = list(mat.ref.cell.d[0]) + list(rhs.ref.cell.d[0])
      c = x.ref.cell
      c.d[0] = [A.uf(name, ins, k) for k in range(c.size)]

    def factor_solve_i(m, d, M, L, D, x, y):
      stubs.calls.append(("factor_solve_i", M, y, x))
      solve_out(x, "SOLVE", M, y)

    def factor_solve_lu(m, d, qLU, qacc, qfrc):
      stubs.calls.append(("factor_solve_lu", qLU, qfrc, qacc))
      solve_out(qacc, "SOLVE_LU", qLU, qfrc)

    def deriv_smooth_vel(m, d, out):
      stubs.calls.append(("deriv_smooth_vel", out))
      c = out.ref.cell
      c.d[0] = [z3.Real(f"qderiv_smooth!{k}") for k in range(c.size)]

    def deriv_rne_vel(m, d, out, flg_subtract=False):
      stubs.calls.append(("deriv_rne_vel", out, flg_subtract))
      c = out.ref.cell
      c.d[0] = [A.uf("RNE_DERIV", list(c.d[0]), k) for k in range(c.size)]

    smooth.factor_solve_i, smooth.factor_solve_lu, derivative.deriv_smooth_vel, derivative.deriv_rne_vel = factor_solve_i, factor_solve_lu, deriv_smooth_vel, deriv_rne_vel

  def restore(self):
    for mod, n, f in self.saved:
      setattr(mod, n, f)


def unit_euler(flagname):
  def run(ctx):
    from mujoco_warp._src import forward

    flags = {"default": "", "eulerdamp-off": '<flag eulerdamp="disable"/>', "damper-off": '<flag damper="disable"/>'}[flagname]
    xml, mjm, m, d = build("mix", "Euler", flags)
    ctx.encode(forward.euler, forward._advance, forward._compute_damping_deriv, forward._euler_damp_qfrc)
    ctx.bound(model="mix", nworld=1, flags=flagname)
    ctx.assume("the factor/solve is an uninterpreted function of (matrix, right-hand side) (C21)", "quat_integrate shared uninterpreted function", "model constants as stored (float32)")
    d2, arrs = shim(d)
    st_ = Stubs()
    st_.install(forward)
    try:
      with Run() as hr:
        forward.euler(m, d2)
    finally:
      st_.restore()
    info, h = info_of(mjm, m)
    st = {f: cells(arrs, f) for f in ("qpos", "qvel", "act")}
    st["time"] = cells(arrs, "time")[0]
    sess = ctx.session([core.zbool(a) for a in hr.assumes])
    ctx.reach(sess, "twin:state", True)
    damped = flagname == "default"
    solves = [c for c in st_.calls if c[0] == "factor_solve_i"]
    rp = api_replay("mix", "Euler", flags)
    if (len(solves) == 1) != damped:
      ctx.violation("branch", f"euler with flags '{flagname}': implicit-damping solve {'missing' if damped else 'performed although disabled'}", rp(None)[1])
      return
    if damped:
      _, Mc, rhs, x = solves[0]
      # matrix = M + h * dD/dv on the diagonal, rhs = efc.Ma
      M0 = cells(arrs, "M")
      rownnz, rowadr = m.M_rownnz.numpy(), m.M_rowadr.numpy()
      damping, poly = m.dof_damping.numpy()[0], m.dof_dampingpoly.numpy()[0]
      want = list(M0)
      for k in range(mjm.nv):
        a = int(rowadr[k] + rownnz[k] - 1)
        want[a] = A.add(want[a], A.mul(h, I.damping_deriv_ref(float(damping[k]), [float(x_) for x_ in poly[k]], st["qvel"][k])))
      got = list(Mc.ref.cell.d[0])
      for k, (g, wv) in enumerate(zip(got, want)):
        A.prove_eq(ctx, sess, f"system-matrix.{k}", g, wv, replay=rp, desc="euler: the matrix handed to the solver is not M + h*diag(dD/dv)")
      ctx.prove(sess, "rhs-is-efc.Ma", And(*[a == b for a, b in zip(rhs.ref.cell.d[0], cells(arrs, "efc.Ma"))]), replay=rp, desc="euler: right-hand side of the damped solve is not M*qacc")
      ctx.prove(sess, "M-untouched", And(*[a == b for a, b in zip(cells(arrs, "M", post=True), M0)]), replay=rp, desc="euler modifies d.M instead of a copy")
      qacc = [A.uf("SOLVE", want + cells(arrs, "efc.Ma"), k) for k in range(mjm.nv)]
    else:
      qacc = cells(arrs, "qacc")
    ref = I.advance_ref(info, st, cells(arrs, "act_dot"), qacc, None, h, qi_sym)
    compare_state(ctx, sess, "", arrs, ref, cells(arrs, "qacc"), rp, f"euler ({flagname})", wreplay=warm_replay("mix", "Euler", flags))

  return (f"euler/{flagname}", run)


def unit_implicit(integ):
  def run(ctx):
    from mujoco_warp._src import forward

    xml, mjm, m, d = build("mix", integ)
    ctx.encode(forward.implicit, forward._advance)
    ctx.bound(model="mix", nworld=1, integrator=integ)
    ctx.assume("deriv_smooth_vel / deriv_rne_vel / factor-solve are uninterpreted (outside: C21 and the derivative assembly)", "quat_integrate shared uninterpreted function")
    d2, arrs = shim(d)
    st_ = Stubs()
    st_.install(forward)
    try:
      with Run() as hr:
        forward.implicit(m, d2)
    finally:
      st_.restore()
    info, h = info_of(mjm, m)
    st = {f: cells(arrs, f) for f in ("qpos", "qvel", "act")}
    st["time"] = cells(arrs, "time")[0]
    sess = ctx.session([core.zbool(a) for a in hr.assumes])
    ctx.reach(sess, "twin:state", True)
    rp = api_replay("mix", integ)
    kinds = [c[0] for c in st_.calls]
    want_kinds = ["deriv_smooth_vel", "factor_solve_i"] if integ == "implicitfast" else ["deriv_smooth_vel", "deriv_rne_vel", "factor_solve_lu"]
    if kinds != want_kinds:
      ctx.violation("branch", f"implicit ({integ}): call sequence {kinds}, expected {want_kinds}", rp(None)[1])
      return
    if integ == "implicit":
      # MuJoCo: qLU = M - h*(d qfrc_smooth/dv - d RNE/dv), i.e. the RNE (bias force) derivative enters with +h; deriv_smooth_vel delivers
      # M - h*d qfrc_smooth/dv, so deriv_rne_vel must ADD h*dRNE/dv (flg_subtract=False).  Host-trace check, confirmed through the public API.
      flg = [c[2] for c in st_.calls if c[0] == "deriv_rne_vel"][0]
      if flg:
        bad, path = rp(None)
        if bad:
          ctx.violation("rne-derivative-sign", "implicit (fully implicit integrator): deriv_rne_vel is called with flg_subtract=True, so the system matrix is M - h*dsmooth/dv - h*dRNE/dv; MuJoCo uses M - h*(dsmooth/dv - dRNE/dv) = ... + h*dRNE/dv (mjw.step deviates from mujoco.mj_step by ~1% in qvel after one step; with flg_subtract=False it agrees to 1e-5)", path)
        else:
          ctx.error("implicit: deriv_rne_vel called with flg_subtract=True but the API comparison with mujoco does not show a difference")
    solve = st_.calls[-1]
    ctx.prove(sess, "rhs-is-efc.Ma", And(*[a == b for a, b in zip(solve[2].ref.cell.d[0], cells(arrs, "efc.Ma"))]), replay=rp, desc=f"implicit ({integ}): right-hand side of the solve is not M*qacc")
    qacc = list(solve[3].ref.cell.d[0])
    ref = I.advance_ref(info, st, cells(arrs, "act_dot"), qacc, None, h, qi_sym)
    compare_state(ctx, sess, "", arrs, ref, cells(arrs, "qacc"), rp, f"implicit ({integ})", wreplay=warm_replay("mix", integ))

  return (f"implicit/{integ}", run)


def unit_rk4(model, timedep):
  def run(ctx):
    from mujoco_warp._src import forward

    xml, mjm, m, d = build(model if model != "delay" else "fexact", "RK4")
    ctx.encode(forward.rungekutta4, forward._rk_perturb_state, forward._rk_accumulate, forward._advance)
    ctx.bound(model=model, nworld=1)
    ctx.assume("forward() is an uninterpreted function of (" + ("time, " if timedep else "") + "qpos, qvel, act) returning qacc and act_dot", "quat_integrate shared uninterpreted function", "actrange lo <= hi")
    d2, arrs = shim(d)

    def FWD(t, qpos, qvel, act):
      ins = ([t] if timedep else []) + list(qpos) + list(qvel) + list(act)
      return [A.uf("FWD_qacc", ins, k) for k in range(mjm.nv)], [A.uf("FWD_act_dot", ins, k) for k in range(mjm.na)]

    def stub(m_, d_):
      qacc, adot = FWD(cells(arrs, "time", post=True)[0], cells(arrs, "qpos", post=True), cells(arrs, "qvel", post=True), cells(arrs, "act", post=True))
      arrs["qacc"].ref.cell.d[0] = qacc
      if mjm.na:
        arrs["act_dot"].ref.cell.d[0] = adot

    saved = forward.forward
    forward.forward = stub
    try:
      with Run() as hr:
        forward.rungekutta4(m, d2)
    finally:
      forward.forward = saved
    info, h = info_of(mjm, m)
    st = {f: cells(arrs, f) for f in ("qpos", "qvel", "act")}
    st["time"] = cells(arrs, "time")[0]
    ref, warm = I.rk4_ref(info, st, (cells(arrs, "qacc"), cells(arrs, "act_dot")), FWD, h, qi_sym)
    sess = ctx.session([core.zbool(a) for a in hr.assumes], timeout_ms=max(ctx.timeout_ms, 60000))
    ctx.reach(sess, "twin:state", True)
    rp = api_replay("delay" if timedep else model, "RK4", nstep=6 if timedep else 3)
    what = "rungekutta4" + (" with time-dependent dynamics (delayed actuators): every stage's forward() runs at the OLD time, MuJoCo advances d.time to t+h/2, t+h/2, t+h" if timedep else "")
    compare_state(ctx, sess, "", arrs, ref, warm, rp, what)

  return (f"rk4/{model}/{'time-dependent' if timedep else 'time-invariant'}", run)


def unit_ma_postcondition(ctx):
  """euler() / implicit() take efc.Ma as the right-hand side M*qacc (rhs-is-efc.Ma above): solve() must establish it on the
  constraint-free early-out (njmax == 0) too.  The iterative path (njmax > 0) maintains Ma incrementally (C06)."""
  import mujoco

  import mujoco_warp as mjw
  from mujoco_warp._src import solver

  xml = HXML["mix"].format(integ="Euler", flags="")
  mjm = mujoco.MjModel.from_xml_string(xml)
  mjd = mujoco.MjData(mjm)
  mujoco.mj_forward(mjm, mjd)
  m, d = mjw.put_model(mjm), mjw.put_data(mjm, mjd, njmax=0)
  sym = {"qacc_smooth", "qacc", "M", "efc.Ma", "qacc_warmstart"}
  d2 = host.shim_dataclass(d, "d.", symbolic=lambda n: n[2:] in sym)
  arrs = host.arrays_of(d2)
  with host.HostRun(mode="exec") as hr:
    solver.solve(m, d2)
  ctx.encode(solver.solve)
  for e in hr.events:
    if e.kind == "launch":
      ctx.encode(e.kernel)
  ctx.bound(nworld=1, nv=int(mjm.nv), njmax=0, model="ball + hinge + slide chain")
  ctx.assume("njmax == 0 (no constraint rows can exist); M symbolic in mujoco_warp's CSR layout of this model")
  nv = int(mjm.nv)
  rownnz, rowadr, colind = [[int(x) for x in a.numpy()] for a in (m.M_rownnz, m.M_rowadr, m.M_colind)]
  Mv, qs = cells(arrs, "M"), cells(arrs, "qacc_smooth")
  full = [[0.0] * nv for _ in range(nv)]
  for i in range(nv):
    for k in range(rownnz[i]):
      j = colind[rowadr[i] + k]
      full[i][j] = full[j][i] = Mv[rowadr[i] + k]
  want = [sum((full[i][j] * qs[j] for j in range(nv)), 0.0) for i in range(nv)]
  sess = ctx.session([core.zbool(a) for a in hr.assumes])
  ctx.reach(sess, "twin:solve-njmax0", True)

  def rp(zmodel):
    res = {}
    for integ in ("Euler", "implicitfast", "implicit"):
      mjm2 = mujoco.MjModel.from_xml_string(HXML["mix"].format(integ=integ, flags=""))
      m2 = mjw.put_model(mjm2)
      mjd2 = mujoco.MjData(mjm2)
      mjd2.qvel[:] = np.random.default_rng(3).normal(size=mjm2.nv)
      d0 = mjw.put_data(mjm2, mjd2, njmax=0)
      for _ in range(3):
        mujoco.mj_step(mjm2, mjd2)
        mjw.step(m2, d0)
      res[integ] = {"mujoco qvel": mjd2.qvel.tolist(), "mujoco_warp qvel (njmax=0)": d0.qvel.numpy()[0].tolist()}
    bad = any(not np.allclose(v["mujoco qvel"], v["mujoco_warp qvel (njmax=0)"], rtol=3e-4, atol=3e-5) for v in res.values())
    return bad, _save("solve.njmax0.Ma", {"xml": HXML["mix"], "result": res, "how": "put_data(njmax=0), random qvel (default_rng(3)), 3 x mjw.step vs mujoco.mj_step"})

  got_q, got_Ma = cells(arrs, "qacc", post=True), cells(arrs, "efc.Ma", post=True)
  for i in range(nv):
    A.prove_eq(ctx, sess, f"qacc[{i}]==qacc_smooth", got_q[i], qs[i], names={}, replay=rp, desc="solve() without constraint rows: qacc differs from qacc_smooth")
    A.prove_eq(ctx, sess, f"efc.Ma[{i}]==(M*qacc)", got_Ma[i], want[i], names={}, replay=rp, desc="solve() with njmax == 0 leaves efc.Ma (right-hand side of the Euler / implicit damping solve) stale instead of M*qacc")


def main(tier, seed, only=None):
  import mujoco_warp  # noqa: imported once here so that the forked unit processes inherit the loaded modules
  from mujoco_warp._src import forward, smooth, support, util_misc  # noqa

  units = [("reference", unit_reference), ("quat_integrate", unit_quat_integrate), ("kernels", unit_small)]
  pid_units = [unit_next_position(True), unit_next_position(False)]
  pid_units += [c03.unit_next_activation(dn, 2 if tier != "thorough" else 3) for dn in A.DYN if dn != "none"]
  units += pid_units
  units += [unit_advance(False), unit_advance(True)]
  units += [unit_euler(f) for f in ("default", "eulerdamp-off", "damper-off")]
  units.append(("solve-postcondition/njmax0", unit_ma_postcondition))
  units += [unit_implicit(i) for i in ("implicitfast", "implicit")]
  units += [unit_rk4("mix", False), unit_rk4("fexact", False), unit_rk4("mix", True)]
  if only:
    units = [u for u in units if any(o in u[0] for o in only)]
  return report.run_check(PID, units, tier, seed)
