"""Generic per-kernel index-discipline pass shared by C09 (per-world Data arrays are only touched at the thread's world)
and C10 (batched Model fields are only read at world % batch-size)."""

import os

import z3

from checks import generic, lib
from wsym import core, kh, report
from wsym.core import And, Not, Or, arith, cmp, is_sym

KS = {}
ENCODABLE = os.path.join(report.VERIF, "encodable.txt")


def load_encodable():
  if not os.path.exists(ENCODABLE):
    return None
  return {l.strip() for l in open(ENCODABLE) if l.strip() and not l.startswith("#")}


def goal_foreign_write(spec, pre, post):
  import numpy as np

  e = spec["env"]
  label, idx = e["label"], tuple(e["idx"])
  a, b = np.asarray(pre[label][idx]), np.asarray(post[label][idx])
  changed = not np.array_equal(a, b)
  return (not changed), f"{label}{list(idx)} (world {idx[0]}, thread's world {e['W']}): {a} -> {b}"


def goal_foreign_read(spec, pres, posts):
  import numpy as np

  diffs = []
  for k in posts[0]:
    a, b = posts[0][k], posts[1][k]
    if a.shape == b.shape and not np.array_equal(a, b, equal_nan=True) and k != spec["env"]["label"]:
      diffs.append(k)
  if spec["env"]["label"] in posts[0]:
    a, b = posts[0][spec["env"]["label"]].copy(), posts[1][spec["env"]["label"]].copy()
    idx = tuple(spec["env"]["idx"])
    try:
      a[idx] = 0
      b[idx] = 0
    except Exception:
      pass
    if not np.array_equal(a, b, equal_nan=True):
      diffs.append(spec["env"]["label"])
  return (not diffs), f"changing {spec['env']['label']}{spec['env']['idx']} (not the thread's cell) changed outputs {diffs}"


def unit_kernel(name, pid):
  def run(ctx):
    k, loc, launches = KS[name]
    ctx.encode(k)
    enc = load_encodable()
    nworld = z3.Int("nworld")
    shapes = {}
    for label, t in kh.arg_specs(k):
      sp = generic.arg_spec(label)
      if sp and sp[1] and sp[1][0] == "nworld" and kh.is_array_type(t):
        shapes[label] = [nworld] + [None] * (t.ndim - 1)
    # builder kernels may capture batch sizes as closure constants: bind those arrays' batch dimension to what the host passed
    try:
      cvars = {n: v for n, v in __import__("inspect").getclosurevars(k.func).nonlocals.items() if isinstance(v, int) and not isinstance(v, bool)}
    except Exception:
      cvars = {}
    if launches and cvars:
      L = launches[0]
      for (label, t), shp in zip(kh.arg_specs(k), L.shapes):
        sp = generic.arg_spec(label)
        if shp is not None and sp and sp[1] and sp[1][0] == "*" and label not in shapes:
          shapes[label] = [int(shp[0])] + [None] * (len(shp) - 1)
      ctx.notes.append(f"closure constants {sorted(cvars)}: batch dimensions bound to the harvested launch ({L.model})")
    try:
      kt = lib.kernel_thread(k, shapes=shapes, unroll=2, alias_inout=True, cap=64, interp_kw={"float_uf": True})
    except core.Unsupported as ex:
      if enc is not None and name in enc:
        ctx.error(f"kernel {name} is listed in encodable.txt but no longer encodes: {ex}")
      else:
        ctx.notes.append(f"skipped (not encodable): {ex}")
      return
    it = kt.it
    fr = getattr(it, "top_frame", None)
    W = []
    if fr is not None and "worldid" in fr.env:
      W.append(fr.env["worldid"])
    for a in it.accesses:
      if a.kind == "R" and "worldid" in a.cell.name and a.cell.dtype == "int" and a.val is not None and not isinstance(a.val, core.Vec):
        W.append(a.val)
    # de-duplicate
    Wd = []
    for w in W:
      if not any((w is v) or (is_sym(w) and is_sym(v) and z3.eq(w, v)) or (not is_sym(w) and not is_sym(v) and w == v) for v in Wd):
        Wd.append(w)
    W = Wd
    per_world, batched = [], []
    for a in it.accesses:
      sp = generic.arg_spec(a.cell.name)
      if sp is None or not sp[1]:
        continue
      owner, dims = sp
      if dims[0] == "nworld" and len(a.idx) >= 1:
        per_world.append(a)
      elif dims[0] == "*" and len(a.idx) >= 1:
        batched.append(a)
    if pid == "C09":
      targets = per_world
    else:
      targets = [a for a in batched if a.kind == "R"]  # writes to Model fields only happen in set_const (C33)
    if not targets:
      ctx.notes.append("no per-world / batched accesses")
      return
    if not W:
      # no worldid variable: all per-world accesses must agree with the first one
      if per_world:
        W = [per_world[0].idx[0]]
      else:
        ctx.notes.append("no world id in kernel")
        return
    ctx.assume("per-world Data arrays have first dimension nworld and every world id of the thread (tid[0] or a value read from a *worldid* array) lies in [0, nworld)")
    sess = ctx.session(kt.bg + [nworld >= 1] + [z3.And(core.to_z3(w, "int") >= 0, core.to_z3(w, "int") < nworld) for w in W if is_sym(w)])
    tw = sess.reach("twin:thread-runs", True)
    if tw.status == "unknown":
      # retry without the (possibly non-linear) own-bounds assumptions: still a witness that the preconditions are consistent
      tw = ctx.session(kt.shapes_bg + [nworld >= 1] + [z3.And(core.to_z3(w, "int") >= 0, core.to_z3(w, "int") < nworld) for w in W if is_sym(w)]).reach("twin:thread-runs(shapes only)", True)
      ctx.notes.append("reachability twin with own-bounds assumptions was 'unknown'; shapes-only twin used")
    ctx._rec(tw)
    if tw.status != "sat":
      ctx.error(f"reachability twin is {tw.status}")
    seen = set()
    nq = 0
    for a in targets:
      i0 = a.idx[0]
      if pid == "C09":
        goal = Or(*[cmp("==", i0, w) for w in W], *[cmp("==", i0, arith("%", w, a.cell.shape[0])) for w in W])
      else:
        n0 = a.cell.shape[0]
        goal = Or(*[cmp("==", i0, arith("%", w, n0)) for w in W])
      sig = (a.cell.name, a.kind[0], str(i0) if not is_sym(i0) else i0.sexpr(), a.where)
      if sig in seen:
        continue
      seen.add(sig)
      if goal is True:
        res = kh.QResult(f"{a.where}:{a.cell.name}", "unsat", 0.0)
        res.trivial = True
        ctx._rec(res)
        continue
      nq += 1
      qn = f"{a.kind[0]}:{a.cell.name}@{a.where}"
      names = {"idx0": i0, "W": W[0]}
      rp = None
      if loc is not None:
        if a.kind[0] in "WA":
          rp = lib.make_replay(ctx, kt, loc, qn, "goal", goal="checks.worldidx:goal_foreign_write", env={"label": a.cell.name, "idx": list(a.idx), "W": W[0]})
        else:
          poke = 12345 if a.cell.dtype == "int" else (True if a.cell.dtype == "bool" else 1234.5)
          rp = lib.make_replay(
            ctx, kt, loc, qn, "goal", goal="checks.worldidx:goal_foreign_read",
            env={"label": a.cell.name, "idx": list(a.idx), "W": W[0], "randomize_floats": 6, "variants": [{}, {"__poke__": [[a.cell.name, list(a.idx), None, poke]]}]},
          )
      extra_guard = True
      if pid == "C10":
        extra_guard = cmp(">=", a.cell.shape[0], 1)
      what = "touches a per-world array outside the thread's world" if pid == "C09" else "reads a per-world-batched Model field at an index other than world % batch size"
      ctx.prove(sess, qn, goal, And(a.guard, extra_guard), names=names, replay=rp, desc=f"{name}: {what}: {a.cell.name} first index {str(i0)[:60]} at {a.where}")
    ctx.notes.append(f"{len(targets)} accesses, {nq} solver queries, world ids: {len(W)}")

  return (name, run)


def main(pid, tier, seed, only=None):
  global KS
  KS = generic.all_kernels(with_harvest=True)
  names = sorted(n for n in KS if "flex" not in n.lower())  # flex kernels: outside every claim (C40 not applicable)
  if only:
    names = [n for n in names if any(o in n for o in only)]
  units = [unit_kernel(n, pid) for n in names]
  rule = (
    "one evaluation = one SMT query: for one access (array, source line, index expression) of one generic thread of one kernel, "
    "'path guard ∧ first index ≠ thread's world id' (C09) / '≠ world % batch' (C10) must be unsat; accesses whose obligation is syntactically true are counted as trivial; "
    "distinct by (kernel, array, line, index term)"
  )
  enc = load_encodable()
  return report.run_check(pid, units, tier, seed, rule=rule, unit_timeout=90 if tier == "quick" else 600, on_timeout=lambda n: "error" if (enc is not None and n in enc) else "skip")
