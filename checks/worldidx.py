"""Generic per-kernel index-discipline pass shared by C09 (per-world Data arrays are only touched at the thread's world)
and C10 (batched Model fields are only read at world % batch-size)."""

import os

import z3

from checks import generic, lib
from wsym import core, kh, report
from wsym.core import And, Not, Or, arith, cmp, is_sym

KS = {}
ENCODABLE = os.path.join(report.VERIF, "encodable.txt")


def load_encodable():
  if not os.path.exists(ENCODABLE):
    return None
  return {l.strip() for l in open(ENCODABLE) if l.strip() and not l.startswith("#")}


def goal_foreign_write(spec, pre, post):
  import numpy as np

  e = spec["env"]
  label, idx = e["label"], tuple(e["idx"])
  a, b = np.asarray(pre[label][idx]), np.asarray(post[label][idx])
  changed = not np.array_equal(a, b)
  return (not changed), f"{label}{list(idx)} (world {idx[0]}, thread's world {e['W']}): {a} -> {b}"


def goal_foreign_read(spec, pres, posts):
  import numpy as np

  diffs = []
  for other in posts[1:]:
    for k in posts[0]:
      a, b = posts[0][k], other[k]
      if a.shape == b.shape and not np.array_equal(a, b, equal_nan=True) and k != spec["env"]["label"]:
        diffs.append(k)
    if spec["env"]["label"] in posts[0]:
      a, b = posts[0][spec["env"]["label"]].copy(), other[spec["env"]["label"]].copy()
      idx = tuple(spec["env"]["idx"])
      try:
        a[idx] = 0
        b[idx] = 0
      except Exception:
        pass
      if not np.array_equal(a, b, equal_nan=True):
        diffs.append(spec["env"]["label"])
  return (not diffs), f"changing {spec['env']['label']}{spec['env']['idx']} (not the thread's cell) changed outputs {sorted(set(diffs))}"


def influence_replay(ctx, k, loc, shapes, cap, acc_where, acc_label, bad_index_cond_builder, qn, pid, timeout_ms=120000):
  """Second stage for a wrong-index READ: re-execute the thread with exact real arithmetic and ask the solver for a state
  in which the value of the wrongly indexed cell actually influences something the thread writes (a stored value or the
  condition of a store); replay exactly that state on the real kernel with the cell poked."""
  kt = lib.kernel_thread(k, shapes=shapes, unroll=2, alias_inout=True, cap=cap, interp_kw={"float_uf": False})
  it = kt.it
  target = None
  for a in it.accesses:
    if a.kind == "R" and a.cell.name == acc_label and a.where == acc_where and a.val is not None:
      bad = bad_index_cond_builder(kt, a)
      if bad is False:
        continue
      target = (a, bad)
      break
  if target is None:
    return False, "influence query: access not found in the exact re-execution"
  a, bad = target
  vals = a.val.c if isinstance(a.val, core.Vec) else [a.val]
  subs = []
  pokes = []
  for j, v in enumerate(vals):
    if is_sym(v):
      pv = z3.Const(f"poke!{j}", v.sort())
      subs.append((v, pv))
      pokes.append((j, pv))
  if not subs:
    return False, "influence query: read value is concrete"
  differ = []
  for w in it.accesses:
    if w.kind[0] not in "WA" or w.val is None:
      continue
    g = core.zbool(w.guard)
    g2 = z3.substitute(g, *subs)
    wv = w.val.c if isinstance(w.val, core.Vec) else [w.val]
    vd = []
    for x in wv:
      if is_sym(x):
        vd.append(x != z3.substitute(x, *subs))
    differ.append(z3.Or(g != g2, z3.And(g, z3.Or(*vd)) if vd else False))
  if not differ:
    return False, "influence query: thread writes nothing"
  s = z3.Solver()
  s.set("timeout", timeout_ms)
  for b in kt.bg:
    s.add(core.zbool(b))
  s.add(core.zbool(a.guard), core.zbool(bad), z3.Or(*differ))
  r = str(s.check())
  if r != "sat":
    return False, f"influence query {r}: no state found in which the wrongly indexed value affects a store"
  m = s.model()
  variants = [{}, {"__poke__": [[a.cell.name, [kh.mval(m, i) for i in a.idx], (j if len(vals) > 1 else None), kh.mval(m, pv)] for j, pv in pokes]}]
  rp = lib.make_replay(ctx, kt, loc, qn + "#influence", "goal", goal="checks.worldidx:goal_foreign_read", env={"label": a.cell.name, "idx": list(a.idx), "W": 0, "variants": variants})
  return rp(m)


def unit_kernel(name, pid):
  def run(ctx):
    k, loc, launches = KS[name]
    ctx.encode(k)
    if loc is None:
      from wsym import replay as _rp

      loc = f"harvestsig:|{k.key}|{_rp.closure_sig(k)}|{1 if pid == 'C10' else 0}"
    enc = load_encodable()
    nworld = z3.Int("nworld")
    shapes = {}
    # host temporaries allocated per world by the launching function (AST of the current sources): part of C09 as well
    mn_, base_ = name.split(".", 1)[0], name.split(".", 1)[-1].split("(")[0].split("#")[0]
    labels_ = [lab for lab, _ in kh.arg_specs(k)]
    temp_pw = {labels_[pos] for (m2, k2, pos) in generic.temp_per_world() if m2 == mn_ and k2 == base_ and pos < len(labels_)} if pid == "C09" else set()
    temp_pw = {lab for lab in temp_pw if generic.arg_spec(lab) is None}
    if temp_pw:
      ctx.notes.append(f"per-world host temporaries (allocated with first dimension nworld by the launching function): {sorted(temp_pw)}")
    _arg_spec = lambda lab: (("Temp", ("nworld",)) if lab in temp_pw else generic.arg_spec(lab))
    for label, t in kh.arg_specs(k):
      sp = _arg_spec(label)
      if sp and sp[1] and sp[1][0] == "nworld" and kh.is_array_type(t):
        shapes[label] = [nworld] + [None] * (t.ndim - 1)
    # builder kernels may capture batch sizes as closure constants: bind those arrays' batch dimension to what the host passed
    try:
      cvars = {n: v for n, v in __import__("inspect").getclosurevars(k.func).nonlocals.items() if isinstance(v, int) and not isinstance(v, bool)}
    except Exception:
      cvars = {}
    if launches and cvars:
      L = launches[0]
      for (label, t), shp in zip(kh.arg_specs(k), L.shapes):
        sp = generic.arg_spec(label)
        if shp is not None and sp and sp[1] and sp[1][0] == "*" and label not in shapes:
          shapes[label] = [int(shp[0])] + [None] * (len(shp) - 1)
      ctx.notes.append(f"closure constants {sorted(cvars)}: batch dimensions bound to the harvested launch ({L.model})")
    import signal

    class _EncodeTimeout(Exception):
      pass

    def _alarm(*a):
      raise _EncodeTimeout()

    budget = 150 if ctx.tier == "quick" else 600
    signal.signal(signal.SIGALRM, _alarm)
    signal.setitimer(signal.ITIMER_REAL, budget)
    try:
      kt = lib.kernel_thread(k, shapes=shapes, unroll=2, alias_inout=True, cap=64, interp_kw={"float_uf": True})
    except _EncodeTimeout:
      if enc is not None and name in enc:
        ctx.error(f"kernel {name} is listed in encodable.txt but its symbolic execution exceeded {budget}s")
      else:
        ctx.notes.append(f"skipped (symbolic execution exceeded {budget}s): nothing claimed")
      return
    except core.Unsupported as ex:
      if enc is not None and name in enc:
        ctx.error(f"kernel {name} is listed in encodable.txt but no longer encodes: {ex}")
      else:
        ctx.notes.append(f"skipped (not encodable): {ex}")
      return
    finally:
      signal.setitimer(signal.ITIMER_REAL, 0)
    it = kt.it
    fr = getattr(it, "top_frame", None)
    W = []
    if fr is not None and "worldid" in fr.env:
      W.append(fr.env["worldid"])
    for a in it.accesses:
      if a.kind == "R" and "worldid" in a.cell.name and a.cell.dtype == "int" and a.val is not None and not isinstance(a.val, core.Vec):
        W.append(a.val)
    # de-duplicate
    Wd = []
    for w in W:
      if not any((w is v) or (is_sym(w) and is_sym(v) and z3.eq(w, v)) or (not is_sym(w) and not is_sym(v) and w == v) for v in Wd):
        Wd.append(w)
    W = Wd
    per_world, batched = [], []
    for a in it.accesses:
      sp = _arg_spec(a.cell.name)
      if sp is None or not sp[1]:
        continue
      owner, dims = sp
      if dims[0] == "nworld" and len(a.idx) >= 1:
        per_world.append(a)
      elif dims[0] == "*" and len(a.idx) >= 1:
        batched.append(a)
    if pid == "C09":
      targets = per_world
    else:
      targets = [a for a in batched if a.kind == "R"]  # writes to Model fields only happen in set_const (C33)
    if not targets:
      ctx.notes.append("no per-world / batched accesses")
      return
    if not W:
      # no worldid variable: all per-world accesses must agree with the first one
      if per_world:
        W = [per_world[0].idx[0]]
      else:
        ctx.notes.append("no world id in kernel")
        return
    ctx.assume("per-world Data arrays have first dimension nworld and every world id of the thread (tid[0] or a value read from a *worldid* array) lies in [0, nworld)")
    sess = ctx.session(kt.bg + [nworld >= 1] + [z3.And(core.to_z3(w, "int") >= 0, core.to_z3(w, "int") < nworld) for w in W if is_sym(w)])
    tw = sess.reach("twin:thread-runs", True)
    if tw.status == "unknown":
      # retry without the (possibly non-linear) own-bounds assumptions: still a witness that the preconditions are consistent
      tw = ctx.session(kt.shapes_bg + [nworld >= 1] + [z3.And(core.to_z3(w, "int") >= 0, core.to_z3(w, "int") < nworld) for w in W if is_sym(w)]).reach("twin:thread-runs(shapes only)", True)
      ctx.notes.append("reachability twin with own-bounds assumptions was 'unknown'; shapes-only twin used")
    ctx._rec(tw)
    if tw.status != "sat":
      ctx.error(f"reachability twin is {tw.status}")
    seen = set()
    nq = 0
    for a in targets:
      i0 = a.idx[0]
      if pid == "C09":
        goal = Or(*[cmp("==", i0, w) for w in W], *[cmp("==", i0, arith("%", w, a.cell.shape[0])) for w in W])
      else:
        n0 = a.cell.shape[0]
        goal = Or(*[cmp("==", i0, arith("%", w, n0)) for w in W])
      sig = (a.cell.name, a.kind[0], str(i0) if not is_sym(i0) else i0.sexpr(), a.where)
      if sig in seen:
        continue
      seen.add(sig)
      if goal is True:
        res = kh.QResult(f"{a.where}:{a.cell.name}", "unsat", 0.0)
        res.trivial = True
        ctx._rec(res)
        continue
      nq += 1
      qn = f"{a.kind[0]}:{a.cell.name}@{a.where}"
      names = {"idx0": i0, "W": W[0]}
      rp = None
      if True:
        if a.kind[0] in "WA":
          rp = lib.make_replay(ctx, kt, loc, qn, "goal", goal="checks.worldidx:goal_foreign_write", env={"label": a.cell.name, "idx": list(a.idx), "W": W[0]})
        else:
          poke = 12345 if a.cell.dtype == "int" else (True if a.cell.dtype == "bool" else 1234.5)
          rp0 = lib.make_replay(
            ctx, kt, loc, qn, "goal", goal="checks.worldidx:goal_foreign_read",
            env={"label": a.cell.name, "idx": list(a.idx), "W": W[0], "randomize_floats": 4, "variants": [{}, {"__poke__": [[a.cell.name, list(a.idx), None, poke]]}] + ([{"__poke__": [[a.cell.name, list(a.idx), None, float("nan")]]}, {"__poke__": [[a.cell.name, list(a.idx), None, -poke]]}] if a.cell.dtype == "real" else [])},
          )
          def rp(model, _rp0=rp0, _a=a, _qn=qn):
            ok, txt = _rp0(model)
            if ok:
              return ok, txt

            def badidx(kt2, a2):
              Ws = []
              fr2 = getattr(kt2.it, "top_frame", None)
              if fr2 is not None and "worldid" in fr2.env:
                Ws.append(fr2.env["worldid"])
              for x in kt2.it.accesses:
                if x.kind == "R" and "worldid" in x.cell.name and x.cell.dtype == "int" and x.val is not None and not isinstance(x.val, core.Vec):
                  Ws.append(x.val)
              if not Ws:
                return False
              if pid == "C09":
                good = Or(*[cmp("==", a2.idx[0], w) for w in Ws], *[cmp("==", a2.idx[0], arith("%", w, a2.cell.shape[0])) for w in Ws])
              else:
                good = Or(*[cmp("==", a2.idx[0], arith("%", w, a2.cell.shape[0])) for w in Ws])
              return And(Not(good), *[And(cmp(">=", w, 0), cmp("<", w, z3.Int("nworld"))) for w in Ws if is_sym(w)], cmp(">=", a2.cell.shape[0], 1))

            try:
              ok2, txt2 = influence_replay(ctx, k, loc, shapes, 64, _a.where, _a.cell.name, badidx, _qn, pid, timeout_ms=60000)
            except core.Unsupported as ex:
              ok2, txt2 = False, f"influence query not encodable: {ex}"
            if ok2:
              return ok2, txt2
            if pid == "C10" and loc.startswith("harvestsig:"):
              # third stage: the real launch arguments of the corpus, wrongly indexed row poisoned
              from wsym import replay as _r

              spec_path = _r.write_spec(pid, ctx.unit, _qn + "#rowpoison", loc, k, kt.args, model, kt.tid, "rowpoison", env={"label": _a.cell.name, "wrong_row": _a.idx[0]})
              return _r.run_spec(spec_path, timeout=1500)
            return False, f"{txt}; {txt2}"

      extra_guard = True
      if pid == "C10":
        extra_guard = cmp(">=", a.cell.shape[0], 1)
      what = "touches a per-world array outside the thread's world" if pid == "C09" else "reads a per-world-batched Model field at an index other than world % batch size"
      ctx.prove(sess, qn, goal, And(a.guard, extra_guard), names=names, replay=rp, desc=f"{name}: {what}: {a.cell.name} first index {str(i0)[:60]} at {a.where}")
    ctx.notes.append(f"{len(targets)} accesses, {nq} solver queries, world ids: {len(W)}")

  return (name, run)


def main(pid, tier, seed, only=None):
  global KS
  KS = generic.all_kernels(with_harvest=True, mixed=(pid == "C10"))
  # outside the generic passes: flex kernels (C40 not applicable) and the primitive-narrowphase mega-kernel (all primitive
  # collision functions inlined: minutes of symbolic execution; its world/batch indexing is covered by C04's pipeline units)
  names = sorted(n for n in KS if "flex" not in n.lower() and "_primitive_narrowphase" not in n and "_efc_contact_jac_sparse" not in n)
  if only:
    names = [n for n in names if any(o in n for o in only)]
  units = [unit_kernel(n, pid) for n in names]
  rule = (
    "one evaluation = one SMT query: for one access (array, source line, index expression) of one generic thread of one kernel, "
    "'path guard ∧ first index ≠ thread's world id' (C09) / '≠ world % batch' (C10) must be unsat; accesses whose obligation is syntactically true are counted as trivial; "
    "distinct by (kernel, array, line, index term)"
  )
  enc = load_encodable()
  # generous unit budget: replays of sat models (mutated trees) need minutes
  return report.run_check(pid, units, tier, seed, rule=rule, unit_timeout=1200 if tier == "quick" else 2400, on_timeout=lambda n: "error" if (enc is not None and n in enc) else "skip")
