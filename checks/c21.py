"""C21 Inertia factorisation solves the inertia system (partial; exact real arithmetic, H mode on the REAL host functions).

 chol/<model>   smooth.factor_m ; solve_m  and  smooth.factor_solve_i  (-> _small_cholesky_factorize_block,
                _small_cholesky_solve_block / _small_cholesky_solve, _small_cholesky_factorize_solve_block for block sizes 1..6, compact
                and triangular blocks, several blocks / tiles per model) with M = L L^T, L an ARBITRARY lower-triangular factor
                with positive diagonal per tree (so M is an arbitrary SPD matrix with the model's block structure) and an
                arbitrary right-hand side b (sizes 5, 6: b = M w, w arbitrary): the returned x satisfies M x = b row by row, the
                input matrix is untouched, factor_solve_i on scratch arrays (integrator call pattern) solves its system, and
                both entry points leave the same x / qLD / qLDiagInv (step1 ; step2 lemma used by C37).
 ldl/<model>    the sparse L^T D L path (_factor_i_sparse: _qLD_acc, _qLDiag_div; _solve_LD_sparse_fused) reached through the same
                host functions on chain / fork / Y / comb dof trees and on a model mixing Cholesky blocks with an LDL region
                (qLD[:, qLD_block_total:]), M = U^T D U with U unit lower triangular on the tree's sparsity pattern and D > 0
                arbitrary: same claims.
 tile/<model>   the tile-Cholesky path (_tile_cholesky_factorize_block, _tile_cholesky_solve_block, _tile_cholesky_factorize_solve_block:
                trees of 7..64 dofs and small trees that are neither chains nor diagonal) at the DATAFLOW level, through the same
                host functions (wp.launch_tiled interpreted block by block, linalg_c21.TileInterp on top of wsym.tiles), on models
                that interleave tile blocks of one or two sizes with scalar / compact blocks ([fork3, chain2, fork3], [7, 3, 7],
                [8, 2, 7, 8], ...; nworld 2): with tile_cholesky_inplace / tile_cholesky_solve as uninterpreted functions of
                the upper triangle of their tile arguments, x at a tile block's dofs = CHOLSOLVE(CHOL(block of M, dense from CSR,
                absent pairs 0), b at the block's dofs) - i.e. the factor tile the solve kernel loads is cell by cell what the
                factor kernel stored for that block, the gathered matrix tile is that block of M, rhs / x are gathered /
                scattered at its dofs - and with the contract CHOLSOLVE(CHOL(A), y) solves A x = y: M x = b; scalar blocks
                of the same models are decided as in chol/*.  tile/contracts validates the three built-in contracts
                numerically against the real Warp built-ins.
 mulm/<model>   support.mul_m (sparse gather kernel, with / without the per-world skip mask, with an explicit M argument, and the
                dense 3-D variant): res = M vec under MuJoCo's CSR map, skipped worlds keep res.
Proof device (linalg_c21.Closer): every float a thread stores is named; a Laurent-polynomial normaliser PROPOSES a closed form
over the parameters for each stored intermediate and the solver PROVES each proposal (for a sqrt: s >= 0, s^2 = v, L_ii > 0
|- s = closed form) before the name is replaced; the final row queries are then small polynomial identities.
The real put_model builds every index table (block layout, qLD_updates, level tables, M_mulm_*); the size thresholds of
io.m_block_layout are lowered inside the check process for the ldl units so that 2..6-dof trees take the sparse path.
"""

from fractions import Fraction

import numpy as np
import warp as wp
import z3

from checks import linalg_c21 as la
from wsym import core, host, kh, report
from wsym.core import And, Not, Or, arith, cmp, is_sym

PID = "C21"
SYM = ("d.M", "d.qLD", "d.qLDiagInv")

# model name -> (xml, thresholds, nworld)
CHOL = {
  "chain2": (la.xml(la.chain(2)), None, 2),
  "chain3": (la.xml(la.chain(3)), None, 2),
  "mixed": (la.xml(la.slide1(0), la.chain(2, 1), la.slides(2), la.chain(3, 3), la.chain(2, 6)), None, 1),
  "chain4": (la.xml(la.chain(4)), None, 1),
  "chain5": (la.xml(la.chain(5)), None, 1),
  "chain6": (la.xml(la.chain(6)), None, 1),
  "slides3+chain2": (la.xml(la.slides(3), la.chain(2)), None, 2),
}
LDL = {
  "chain2": (la.xml(la.chain(2)), (0, 0), 2),
  "chain3": (la.xml(la.chain(3)), (0, 0), 1),
  "fork3": (la.xml(la.fork()), (0, 0), 2),
  "ytree4": (la.xml(la.ytree()), (0, 0), 1),
  "block+ldl": (la.xml(la.slide1(0), la.chain(2, 1), la.fork(3), la.chain(3, 6)), (2, 2), 1),
  "fork3+slide+chain2": (la.xml(la.fork(), la.slide1(3), la.chain(2, 4)), (0, 0), 1),
  "chain4": (la.xml(la.chain(4)), (0, 0), 1),
  "chain5": (la.xml(la.chain(5)), (0, 0), 1),
  "ytree4+fork3": (la.xml(la.ytree(), la.fork(4)), (0, 0), 1),
  "chain6": (la.xml(la.chain(6)), (0, 0), 1),
  "comb5": (la.xml("<body pos='.1 0 .3'>" + la._hinge(0) + "<body pos='0 .2 .1'>" + la._hinge(1) + "<body pos='0 .3 0'>" + la._hinge(2) + "<body pos='0 .3 .1'>" + la._hinge(3) + "</body></body><body pos='.2 0 .3'>" + la._hinge(4) + "</body></body></body>"), (0, 0), 1),
}
# tile-Cholesky blocks (trees that are neither chains nor diagonal, or have 7..64 dofs) interleaved with scalar / compact blocks
TILE = {
  "fork3+chain2+fork3": (la.xml(la.fork(0), la.chain(2, 3), la.fork(5)), None, 2),
  "fork3+chain2+ytree4+slide+fork3+ytree4": (la.xml(la.fork(0), la.chain(2, 3), la.ytree(5), la.slide1(9), la.fork(10), la.ytree(13)), None, 2),
  "chain7+chain3+chain7": (la.xml(la.chain(7), la.chain(3, 7), la.chain(7, 10)), None, 2),
  "chain8+chain2+chain7+chain8": (la.xml(la.chain(8), la.chain(2, 8), la.chain(7, 10), la.chain(8, 17)), None, 2),
  "tile1+tile2+tile1": (la.xml(la.slide1(0), la.chain(2, 1), la.slide1(3)), (0, 64), 2),
}
FAMILY = {"chol": CHOL, "ldl": LDL, "tile": TILE}
MULM = {
  "chain3": (la.xml(la.chain(3)), None, 2),
  "fork3": (la.xml(la.fork()), None, 2),
  "ytree4": (la.xml(la.ytree()), None, 2),
  "mixed": (la.xml(la.slide1(0), la.chain(2, 1), la.slides(2), la.fork(3)), None, 2),
  "free": ("<mujoco><worldbody><body><freejoint/><geom size='.1' pos='.1 .2 .3'/><body pos='.2 0 0'><joint/><geom size='.1' pos='.1 0 0'/></body></body></worldbody></mujoco>", None, 1),
}


def R(name):
  return z3.Real(name)


# ------------------------------------------------------------------------------------------------ parametrisation


def stored(mjm):
  return {(i, j): a for i, j, a in la.csr_entries(mjm)}


def tree_kinds(mjm, m):
  """per dof: 'compact' | 'chol' | 'ldl' | 'tile' from the layout the real put_model chose"""
  from mujoco_warp._src import types

  badr = m.qLD_block_adr.numpy()
  tiled = set()
  for t in m.M_tiles:
    if t.elemid.size:
      for s0 in t.adr.numpy():
        tiled.update(range(int(s0), int(s0) + int(t.size)))
  out = []
  for i in range(mjm.nv):
    a = int(badr[i])
    out.append("tile" if i in tiled else "compact" if a == types.Q_LD_BLOCK_COMPACT else "ldl" if a == types.Q_LD_BLOCK_SPARSE else "chol")
  return out


class Param:
  """SPD parametrisation of the CSR inertia matrix of one world, per kinematic tree:
    Cholesky / compact trees:  M = L L^T,  L lower triangular on the stored pattern, L_ii > 0
    sparse trees:              M = U^T D U, U unit lower triangular on the stored (dof, ancestor) pattern, D > 0
  rng=None: symbols; a numpy Generator: well-conditioned random numbers; a random.Random: small exact rationals."""

  def __init__(self, mjm, kinds, w, rng=None):
    st = stored(mjm)
    nv = mjm.nv
    self.st, self.kinds = st, kinds
    import random

    num = rng is not None
    diag = offd = None
    if isinstance(rng, random.Random):
      diag = lambda: Fraction(rng.randint(3, 9), rng.randint(2, 4))
      offd = lambda: Fraction(rng.choice([-3, -2, -1, 1, 2, 3]), rng.randint(2, 5))
    elif num:
      diag = lambda: float(rng.uniform(0.7, 1.5))
      offd = lambda: float(rng.uniform(-0.5, 0.5))
    self.L, self.U, self.D, self.facts, self.positive, self.sym = {}, {}, {}, [], [], {}

    def mk(name, gen):
      if num:
        return gen()
      self.sym[name] = R(name)
      return self.sym[name]

    # tile-Cholesky trees: symbolically the stored entries are free symbols (the tile built-ins are contracts, no SPD
    # structure is needed); numerically they are drawn as U^T D U like sparse trees (closed under any tree pattern)
    ldl = lambda i: kinds[i] == "ldl" or (kinds[i] == "tile" and num)
    self.T = {}
    for (i, j) in st:
      if kinds[i] == "tile" and not num:
        self.T[(i, j)] = mk(f"M{w}_{i}_{j}", None)
      elif ldl(i):
        self.U[(i, j)] = 1.0 if i == j else mk(f"U{w}_{i}_{j}", offd)
      else:
        self.L[(i, j)] = mk(f"L{w}_{i}_{j}", diag if i == j else offd)
    for k in range(nv):
      if ldl(k):
        self.D[k] = mk(f"D{w}_{k}", diag)
      if not num and kinds[k] != "tile":
        pv = self.D[k] if kinds[k] == "ldl" else self.L[(k, k)]
        self.facts.append(pv > 0)
        self.positive.append(pv.decl().name())
    self.M = [0.0] * mjm.nC
    for (i, j), a in st.items():
      acc = 0.0
      if (i, j) in self.T:
        acc = self.T[(i, j)]
      elif ldl(i):
        for k in range(i, nv):
          if (k, i) in st and (k, j) in st:
            acc = arith("+", acc, arith("*", arith("*", self.U[(k, i)], self.D[k]), self.U[(k, j)]))
      else:
        for k in range(j + 1):
          if (i, k) in st and (j, k) in st:
            acc = arith("+", acc, arith("*", self.L[(i, k)], self.L[(j, k)]))
      self.M[a] = acc


def closed(mjm, kinds):
  """the products stay inside the stored pattern (unstored pairs get no term) and trees do not mix layouts"""
  st = stored(mjm)
  nv = mjm.nv
  for i in range(nv):
    if kinds[i] != kinds[int(mjm.tree_dofadr[int(mjm.dof_treeid[i])])]:
      return False
    for j in range(i):
      if (i, j) in st:
        continue
      if kinds[i] in ("ldl", "tile") and any((k, i) in st and (k, j) in st for k in range(i, nv)):
        return False
      if kinds[i] not in ("ldl", "tile") and any((i, k) in st and (j, k) in st for k in range(j + 1)):
        return False
  return True


def residual_rows(mjm, Mvals, x, b):
  """[(i, [(M(i, j), x_j)], b_i)]: row i of M x = b with the dense symmetric matrix of the CSR values"""
  Dm = la.dense_of(mjm, Mvals)
  out = []
  for i in range(mjm.nv):
    prods = [(Dm[i][j], x[j]) for j in range(mjm.nv) if not (isinstance(Dm[i][j], float) and Dm[i][j] == 0.0)]
    out.append((i, prods, b[i]))
  return out


# ------------------------------------------------------------------------------------------------ symbolic runs


def sym_solve(m, d, Mvals, y, how, tag=""):
  """run the real entry point on a Data shim whose M holds Mvals[w][adr] (terms); qLD / qLDiagInv / x arbitrary.
  how: 'split' = factor_m ; solve_m,  'fused' = factor_solve_i on the Data fields,  'scratch' = factor_solve_i on fresh arrays"""
  from mujoco_warp._src import smooth

  nworld, nv = d.nworld, int(m.nv)
  d2 = host.shim_dataclass(d, "d.", symbolic=lambda n: n in SYM)
  arrs = host.arrays_of(d2)
  Mc = arrs["M"].ref.cell
  nC = Mc.shape[1]
  for w in range(nworld):
    for a in range(nC):
      Mc.d[0][w * nC + a] = Mvals[w][a]
  Mc.d0 = [list(v) for v in Mc.d]
  x = host.sym_array(f"x{tag}", (nworld, nv), wp.float32)
  out = {"M": Mc, "dM": Mc, "x": x.ref.cell}
  with la.HostRun(mode="exec", exec_tiles=True) as hr:
    if how == "split":
      smooth.factor_m(m, d2)
      smooth.solve_m(m, d2, x, y)
      out["qLD"], out["Dinv"] = arrs["qLD"].ref.cell, arrs["qLDiagInv"].ref.cell
    elif how == "fused":
      smooth.factor_solve_i(m, d2, d2.M, d2.qLD, d2.qLDiagInv, x, y)
      out["qLD"], out["Dinv"] = arrs["qLD"].ref.cell, arrs["qLDiagInv"].ref.cell
    else:
      M2 = wp.clone(d2.M)
      M2.ref.cell.d0 = [list(v) for v in M2.ref.cell.d]
      q2 = wp.empty_like(d2.qLD)
      D2 = wp.empty((nworld, nv), dtype=float)
      smooth.factor_solve_i(m, d2, M2, q2, D2, x, y)
      out["qLD"], out["Dinv"], out["M"] = q2.ref.cell, D2.ref.cell, M2.ref.cell
  out["hr"] = hr
  return out


def flat(cell, w, k):
  return cell.d[0][w * cell.shape[1] + k]


def unchanged(cell):
  return And(*[cmp("==", a, b) for a, b in zip(cell.d[0], cell.d0[0])])


# ------------------------------------------------------------------------------------------------ replay on the real code


def real_solve(x_, th, nworld, how, Mnp, bnp):
  """real arrays, real host functions -> x, qLD, qLDiagInv, M after (numpy)"""
  from mujoco_warp._src import smooth

  mjm, m, d = la.build(x_, nworld=nworld, thresholds=th)
  d.M.assign(Mnp.astype(np.float32))
  y = wp.array(bnp.astype(np.float32), dtype=float)
  x = wp.zeros((nworld, mjm.nv), dtype=float)
  Mafter = d.M
  if how == "split":
    smooth.factor_m(m, d)
    smooth.solve_m(m, d, x, y)
    q, di = d.qLD, d.qLDiagInv
  elif how == "fused":
    smooth.factor_solve_i(m, d, d.M, d.qLD, d.qLDiagInv, x, y)
    q, di = d.qLD, d.qLDiagInv
  else:
    M2 = wp.clone(d.M)
    q = wp.zeros_like(d.qLD)
    di = wp.zeros((nworld, mjm.nv), dtype=float)
    smooth.factor_solve_i(m, d, M2, q, di, x, y)
  return x.numpy().astype(float), q.numpy().astype(float), di.numpy().astype(float), d.M.numpy().astype(float)


def solve_replay(ctx, fam, name, hows, what):
  """The solver model fixes WHICH claim fails; the replay re-draws well-conditioned factors (a broken elimination is broken
  for generic data; solver models of nonlinear queries are often ill-conditioned in float32) and checks the property's
  observables on the real functions: M x = b (against numpy's dense solve under MuJoCo's CSR map), d.M untouched, equal
  outputs of the two entry points."""

  def _rp(model):
    rng = np.random.default_rng(5)
    x_, th, nworld = FAMILY[fam][name]
    last = ""
    mjm, m, d = la.build(x_, nworld=nworld, thresholds=th)
    kinds = tree_kinds(mjm, m)
    for trial in range(4):
      Mnp = np.array([Param(mjm, kinds, w, rng).M for w in range(nworld)], dtype=float)
      bnp = rng.uniform(-1, 1, (nworld, mjm.nv))
      res = {h: real_solve(x_, th, nworld, h, Mnp, bnp) for h in hows}
      rec = {"property": PID, "xml": x_, "thresholds": th, "M_csr": Mnp, "b": bnp, "how": "checks.c21.real_solve(xml, thresholds, nworld, entry, M_csr, b)"}
      for h, (x, q, di, Ma) in res.items():
        for w in range(nworld):
          Dm = np.array(la.dense_of(mjm, list(Mnp[w])), dtype=float)
          want = np.linalg.solve(Dm, bnp[w])
          r = Dm @ x[w] - bnp[w]
          last = f"{h}: world {w}: max |M x - b| = {np.abs(r).max():.3g}, x = {x[w].tolist()}, dense solve = {want.tolist()}"
          if not np.all(np.isfinite(x[w])) or np.abs(r).max() > 2e-3 * max(1.0, np.abs(want).max()):
            return True, la.save(PID, f"{fam}.{name}.{what}", dict(rec, entry=h, x=x, result=last))
          if not np.allclose(Ma[w], Mnp[w], rtol=1e-6, atol=1e-7):
            return True, la.save(PID, f"{fam}.{name}.{what}", dict(rec, entry=h, M_after=Ma, result="the factorisation modified d.M"))
      if "split" in res and "fused" in res:
        a, c = res["split"], res["fused"]
        for k, nm in ((0, "x"), (1, "qLD"), (2, "qLDiagInv")):
          if not np.allclose(a[k], c[k], rtol=2e-3, atol=2e-4):
            last = f"factor_m;solve_m and factor_solve_i differ on {nm}: {a[k].tolist()} vs {c[k].tolist()}"
            return True, la.save(PID, f"{fam}.{name}.{what}", dict(rec, result=last))
    return False, last

  return _rp


# ------------------------------------------------------------------------------------------------ factor / solve units


def validate_param(ctx, mjm, kinds, seed):
  """numeric instance of the parametrisation: symmetric positive definite, and mujoco's own mj_factorM / mj_solveM on these
  CSR values solves the reference dense system (so 'M x = b under the CSR map' is MuJoCo's meaning of the solve)"""
  import mujoco

  rng = np.random.default_rng(seed)
  Mnp = np.array(Param(mjm, kinds, 0, rng).M, dtype=float)
  Dm = np.array(la.dense_of(mjm, list(Mnp)), dtype=float)
  if np.linalg.eigvalsh(Dm).min() <= 0:
    ctx.error("parametrised matrix is not positive definite")
    return False
  mjd = mujoco.MjData(mjm)
  mujoco.mj_forward(mjm, mjd)
  mjd.M[:] = Mnp
  mujoco.mj_factorM(mjm, mjd)
  b = rng.uniform(-1, 1, (1, mjm.nv))
  x = np.zeros((1, mjm.nv))
  mujoco.mj_solveM(mjm, mjd, x, b)
  if not np.allclose(Dm @ x[0], b[0], atol=1e-8):
    ctx.error("mujoco mj_factorM / mj_solveM on the parametrised CSR values does not solve the reference dense system")
    return False
  return True


def unit_solve(fam, name, scratch=False, leftinv=False):
  def run(ctx):
    from mujoco_warp._src import smooth, types

    x_, th, nworld = FAMILY[fam][name]
    mjm, m, d = la.build(x_, nworld=nworld, thresholds=th)
    err = la.validate_layout(mjm, ctx.seed)
    if err:
      ctx.error(f"model {name}: {err}")
      return
    kinds = tree_kinds(mjm, m)
    if ("tile" in kinds) != (fam == "tile"):
      ctx.error(f"model {name}: tile-Cholesky blocks {'expected' if fam == 'tile' else 'not expected'} in family {fam} (layout {kinds})")
      return
    if fam == "ldl" and "ldl" not in kinds:
      ctx.error(f"model {name} has no sparse L^T D L region")
      return
    if not closed(mjm, kinds):
      ctx.error(f"model {name}: the parametrisation leaves the stored sparsity pattern")
      return
    if not validate_param(ctx, mjm, kinds, ctx.seed):
      return
    nv, nC = mjm.nv, mjm.nC
    badr = m.qLD_block_adr.numpy()
    off = int(m.qLD_block_total)
    ctx.encode(smooth.factor_m, smooth.solve_m, smooth.factor_solve_i, smooth.solve_LD, smooth._factor_blocks, smooth._solve_blocks, smooth._factor_solve_blocks, smooth._small_cholesky_solve, smooth._factor_i_sparse, smooth._solve_LD_sparse)
    ctx.bound(model=name, nv=nv, nworld=nworld, dof_layout=",".join(kinds), block_sizes=sorted({int(t.size) for t in m.M_tiles}), sparse_levels=len(m.qLD_updates), qLD_block_total=off)
    if th is not None:
      ctx.bound(layout_thresholds=f"M_BLOCK_SCALAR_MAX={th[0]}, M_BLOCK_DENSE_MAX={th[1]} (lowered inside the check process; defaults 6 / 64)", sparse_launch="CPU configuration of _solve_LD_sparse: block_dim 1, one thread per world")
    ctx.assume(
      "Cholesky / compact trees: M = L L^T, L lower triangular on the stored pattern with L_ii > 0; sparse trees: M = U^T D U, U unit lower triangular on MuJoCo's stored (dof, ancestor) pattern, D > 0 - i.e. an arbitrary SPD matrix with the model's sparsity",
      "right-hand side b and the previous contents of qLD / qLDiagInv / x arbitrary",
      "floats are exact reals; sqrt(v) is the s >= 0 with s^2 = v",
      "index tables (qLD_block_adr, M_tiles incl. the gather table elemid, qLD_updates, qLD_all_updates, qLD_level_offsets) are what the real put_model builds for the model",
    )
    if fam == "tile":
      ctx.assume(
        "tile-Cholesky blocks, DATAFLOW level: the stored entries of M are free symbols; wp.tile_cholesky_inplace / wp.tile_cholesky_solve (fill_mode 'upper') are uninterpreted functions CHOL / CHOLSOLVE of the upper triangle of their tile arguments with the contract 'CHOLSOLVE(CHOL(A), y) solves A x = y' (A symmetric positive definite); tile_load_indexed reads 0 for an index outside the array - all three validated numerically against the real Warp built-ins in unit tile/contracts",
        "one block = one lane (Warp CPU backend); lane schedules of a wider GPU block are not modelled",
      )
    y = host.sym_array("y", (nworld, nv), wp.float32)
    b = lambda w: [y.ref.cell.d0[0][w * nv + i] for i in range(nv)]
    par = [Param(mjm, kinds, w) for w in range(nworld)]
    Mvals = [p.M for p in par]
    wv = None
    if leftinv:
      # left-inverse form: b := M w with w arbitrary; the claims become x(M w) = w (and M x = b).  M is invertible (L_ii > 0),
      # so b = M w ranges over every right-hand side; M x(b) = b for all b follows by finite-dimensional linear algebra.
      ctx.assume("block sizes 5-6: the right-hand side is b = M w with w arbitrary (left-inverse form x(M w) = w; equivalent to 'M x = b for every b' because a linear map of R^n with a left inverse is invertible)")
      wv = [[R(f"w{w}_{i}") for i in range(nv)] for w in range(nworld)]
      for w in range(nworld):
        Dm = la.dense_of(mjm, Mvals[w])
        for i in range(nv):
          acc = 0.0
          for j in range(nv):
            if not (isinstance(Dm[i][j], float) and Dm[i][j] == 0.0):
              acc = arith("+", acc, arith("*", Dm[i][j], wv[w][j]))
          y.ref.cell.d[0][w * nv + i] = acc
      y.ref.cell.d0 = [list(v) for v in y.ref.cell.d]
    facts = [f for p in par for f in p.facts]
    hows = ("split", "fused") + (("scratch",) if scratch else ())
    runs = {h: sym_solve(m, d, Mvals, y, h, tag=h) for h in hows}
    for h, r in runs.items():
      for e in r["hr"].events:
        if e.kind == "launch":
          ctx.encode(e.kernel)
      if r["hr"].obl:
        ctx.error(f"unexpected symbolic index obligations in {h}")
    sess0 = ctx.session(facts)
    ctx.reach(sess0, "twin:spd-parameters", True)
    rp = lambda what: solve_replay(ctx, fam, name, hows, what)
    positive = [n for p in par for n in p.positive]
    # general proof: close every stored intermediate (solver-checked closed forms), then the rows
    for h, r in runs.items():
      ch = la.Closer(r["hr"].assumes, r["hr"].defs, facts, positive)
      r["chain"] = ch
      ch.close_all(ctx, f"{h}", rp, lambda n: f"{name} ({h}): intermediate {n} does not have the closed form implied by M = L L^T / U^T D U (replay tests M x = b)")
      if ch.failed:
        ctx.notes.append(f"{h}: no closed form for {len(ch.failed)} intermediates {ch.failed[:6]} (left to the solver)")
      for w in range(nworld):
        xs = [flat(r["x"], w, i) for i in range(nv)]
        if fam == "tile":
          # (a)+(b)+(c): x of a tile block = CHOLSOLVE(CHOL(block of M, dense from CSR), b at the block's dofs): provable only
          # if the factor kernel gathered exactly block b of M, the solve kernel loaded cell by cell what the factor kernel
          # stored for block b, and rhs / x are gathered / scattered at block b's dofs
          Dm = la.dense_of(mjm, Mvals[w])
          for start, size in [(int(a_), int(n_)) for a_, n_ in zip(mjm.tree_dofadr, mjm.tree_dofnum) if n_ > 0]:
            if kinds[start] != "tile":
              continue
            ups = [core.to_z3(Dm[start + i][start + j], "real") for i in range(size) for j in range(i, size)]
            fac = [la.chol_app(size, i, j, ups) for i in range(size) for j in range(i, size)]
            rhsb = [core.to_z3(b(w)[start + i], "real") for i in range(size)]
            for rr in range(size):
              ch.prove(ctx, f"{h}/w{w}/tile-dataflow/x[{start + rr}]", xs[start + rr] == la.cholsolve_app(size, rr, fac, rhsb), replay=rp(f"{h}.flow{start + rr}"), desc=f"{name} ({h}): x[{start + rr}] is not CHOLSOLVE(CHOL(M block of dofs {start}..{start + size - 1}), b at these dofs): the factor tile the solve loads is not what the factor kernel stored for this block, or the gathered matrix / rhs / scattered x use other cells")
        if wv is not None:
          for i in range(nv):
            ch.prove(ctx, f"{h}/w{w}/x(Mw)=w[{i}]", cmp("==", xs[i], wv[w][i]), replay=rp(f"{h}.linv{i}"), desc=f"{name} ({h}, {kinds[i]} block): x[{i}] for the right-hand side M w is not w[{i}]")
        for i, prods, rhs in residual_rows(mjm, Mvals[w], xs, b(w)):
          if fam == "tile" and ctx.violations:
            # the unit already has a reproduced violation: counterexample search over products of uninterpreted CHOLSOLVE
            # terms can be slow, and nothing more is needed to fail the unit
            ctx.notes.append(f"{h}/w{w}: remaining row queries skipped after a reproduced violation")
            break
          ch.prove_sum(ctx, f"{h}/w{w}/Mx=b[{i}]", prods, rhs, replay=rp(f"{h}.row{i}"), desc=f"{name} ({h}, {kinds[i]} block): row {i} of M x = b fails for the returned x")
      sessM = ctx.session(facts)
      ctx.prove(sessM, f"{h}/M-untouched", And(unchanged(r["dM"]), unchanged(r["M"])), replay=rp(f"{h}.M"), desc=f"{name} ({h}): the factorisation modifies its input matrix")
    # both entry points agree (the step1 ; step2 lemma of C37): after closing, equal closed forms
    a, c = runs["split"], runs["fused"]
    both = la.Chain(a["hr"].assumes + c["hr"].assumes, a["hr"].defs + c["hr"].defs, facts)
    for t, cl in a["chain"].subs + c["chain"].subs:
      both.add(t, cl)
    for w in range(nworld):
      if fam == "tile" and ctx.violations:
        ctx.notes.append("same/*: skipped after a reproduced violation")
        break
      for i in range(nv):
        both.prove(ctx, f"same/w{w}/x[{i}]", cmp("==", flat(a["x"], w, i), flat(c["x"], w, i)), replay=rp(f"same.x{i}"), desc=f"{name}: factor_m;solve_m and factor_solve_i return different x[{i}]")
        both.prove(ctx, f"same/w{w}/qLDiagInv[{i}]", cmp("==", flat(a["Dinv"], w, i), flat(c["Dinv"], w, i)), replay=rp(f"same.D{i}"), desc=f"{name}: factor_m and factor_solve_i leave different qLDiagInv[{i}]")
      for k in range(int(a["qLD"].shape[1])):
        both.prove(ctx, f"same/w{w}/qLD[{k}]", cmp("==", flat(a["qLD"], w, k), flat(c["qLD"], w, k)), replay=rp(f"same.q{k}"), desc=f"{name}: factor_m and factor_solve_i leave different qLD[{k}]")

  return (f"{fam}/{name}", run)


# ------------------------------------------------------------------------------------------------ tile built-in contracts


def unit_tile_contracts(ctx):
  """side condition of the tile units (not a solver claim about mujoco_warp): the contracts used for the Warp tile built-ins
  hold for the REAL built-ins on the CPU device"""
  n = 3

  @wp.kernel
  def c21_tile_probe(A: wp.array2d[float], idx: wp.array[int], src: wp.array[float], y: wp.array[float], Uin: wp.array2d[float], U: wp.array2d[float], g: wp.array[float], x: wp.array[float], x2: wp.array[float]):
    t = wp.tile_load(A, shape=(3, 3))
    wp.tile_cholesky_inplace(t, fill_mode="upper")
    wp.tile_store(U, t)
    it = wp.tile_load(idx, shape=(4,))
    wp.tile_store(g, wp.tile_load_indexed(src, it, shape=(4,)))
    rhs = wp.tile_load(y, shape=(3,))
    wp.tile_store(x, wp.tile_cholesky_solve(t, rhs, fill_mode="upper"))
    t2 = wp.tile_load(Uin, shape=(3, 3))
    wp.tile_store(x2, wp.tile_cholesky_solve(t2, rhs, fill_mode="upper"))

  ctx.encode(c21_tile_probe)
  ctx.bound(note="numeric validation of the tile built-in contracts on a 3x3 tile, Warp CPU device")
  sess = ctx.session([])
  ctx.reach(sess, "twin:contracts", True)
  rng = np.random.default_rng(ctx.seed)
  Lf = la.rnd_spd_factor(rng, n)
  A = Lf @ Lf.T
  yv = rng.uniform(-1, 1, n)
  src = rng.uniform(1, 2, 5)
  idx = np.array([2, 5, 0, 7], dtype=np.int32)  # 5 = len(src) (the 'absent entry' index of the gather table), 7 further out

  def run(Amat, Uin):
    f = lambda a, dt=float: wp.array(np.asarray(a, dtype=np.float32 if dt is float else np.int32), dtype=dt)
    U, g, x, x2 = wp.zeros((n, n), dtype=float), wp.zeros(4, dtype=float), wp.zeros(n, dtype=float), wp.zeros(n, dtype=float)
    wp.launch_tiled(c21_tile_probe, dim=1, inputs=[f(Amat), f(idx, int), f(src), f(yv), f(Uin)], outputs=[U, g, x, x2], block_dim=32, device="cpu")
    return U.numpy().astype(float), g.numpy().astype(float), x.numpy().astype(float), x2.numpy().astype(float)

  U0, g0, x0, _ = run(A, np.eye(n))
  ok = lambda a, b: np.allclose(a, b, rtol=1e-4, atol=1e-5)
  if not ok(U0.T @ U0, A) or not ok(np.tril(U0, -1), 0):
    ctx.error(f"tile_cholesky_inplace(fill_mode='upper') contract (U^T U = A, lower triangle zero) fails on the real built-in: U = {U0.tolist()}")
  Ap = A + np.tril(rng.uniform(1, 2, (n, n)), -1)  # garbage below the diagonal
  U1, _, _, _ = run(Ap, np.eye(n))
  if not ok(U1, U0):
    ctx.error("tile_cholesky_inplace(fill_mode='upper') depends on the lower triangle of its argument (contract: upper triangle only)")
  if not ok(g0, [src[2], 0.0, src[0], 0.0]):
    ctx.error(f"tile_load_indexed contract (index outside the array reads 0) fails on the real built-in: {g0.tolist()}")
  if not ok(A @ x0, yv):
    ctx.error(f"tile_cholesky_solve(CHOL(A), y) does not solve A x = y on the real built-in: residual {(A @ x0 - yv).tolist()}")
  _, _, _, x2 = run(A, U0 + np.tril(rng.uniform(1, 2, (n, n)), -1))
  if not ok(x2, x0):
    ctx.error("tile_cholesky_solve(fill_mode='upper') depends on the lower triangle of the factor tile (contract: upper triangle only)")


# ------------------------------------------------------------------------------------------------ mul_m


def mulm_replay(ctx, name, variant, target):
  def _rp(model):
    from mujoco_warp._src import support

    x_, th, nworld = MULM[name]
    rng = np.random.default_rng(3)
    for trial in range(3):
      mjm, m, d = la.build(x_, nworld=nworld)
      nv, nC = mjm.nv, mjm.nC
      Mnp = rng.uniform(0.2, 1.0, (nworld, nC)) * rng.choice([-1.0, 1.0], (nworld, nC))
      v = rng.uniform(-1, 1, (nworld, nv))
      r0 = rng.uniform(-1, 1, (nworld, nv))
      sk = rng.integers(0, 2, nworld).astype(bool)
      if trial == 0:
        sk[:] = [False, True][:nworld]
      res = wp.array(r0.astype(np.float32), dtype=float)
      vec = wp.array(v.astype(np.float32), dtype=float)
      want = np.array([np.array(la.dense_of(mjm, list(Mnp[w])), dtype=float) @ v[w] for w in range(nworld)])
      if variant == "dense":
        Md = np.array([la.dense_of(mjm, list(Mnp[w])) for w in range(nworld)], dtype=np.float32)
        support.mul_m(m, d, res, vec, M=wp.array(Md, dtype=float))
      elif variant == "skip":
        d.M.assign(Mnp.astype(np.float32))
        support.mul_m(m, d, res, vec, skip=wp.array(sk, dtype=bool))
        want = np.where(sk[:, None], r0, want)
      elif variant == "Marg":
        support.mul_m(m, d, res, vec, M=wp.array(Mnp.astype(np.float32), dtype=float))
      else:
        d.M.assign(Mnp.astype(np.float32))
        support.mul_m(m, d, res, vec)
      got = res.numpy().astype(float)
      if not np.allclose(got, want, rtol=1e-4, atol=1e-5):
        return True, la.save(PID, f"mulm.{name}.{variant}.{target}", {"property": PID, "xml": x_, "variant": variant, "M_csr": Mnp, "vec": v, "res_before": r0, "skip": sk, "got": got, "want": want, "how": "mujoco_warp.mul_m on these arrays vs the dense product under MuJoCo's CSR map"})
    return False, "mul_m agrees with the dense product on 3 random draws"

  return _rp


def unit_mulm(name):
  def run(ctx):
    from mujoco_warp._src import support

    x_, th, nworld = MULM[name]
    mjm, m, d = la.build(x_, nworld=nworld)
    err = la.validate_layout(mjm, ctx.seed)
    if err:
      ctx.error(f"model {name}: {err}")
      return
    nv, nC = mjm.nv, mjm.nC
    ctx.encode(support.mul_m)
    ctx.bound(model=name, nv=nv, nC=nC, nworld=nworld)
    ctx.assume("M (CSR values), vec, the previous content of res and the skip mask are arbitrary", "M_mulm_rowadr / M_mulm_col / M_mulm_madr are what the real put_model builds for this model")
    for variant in ("plain", "skip", "Marg", "dense"):
      d2 = host.shim_dataclass(d, "d.", symbolic=lambda n: n == "d.M")
      Mc = host.arrays_of(d2)["M"].ref.cell
      vec = host.sym_array("vec", (nworld, nv), wp.float32)
      res = host.sym_array("res", (nworld, nv), wp.float32)
      skip = host.sym_array("skip", (nworld,), wp.bool) if variant == "skip" else None
      Marg = None
      if variant == "Marg":
        Marg = host.sym_array("Marg", (nworld, nC), wp.float32)
        Mc = Marg.ref.cell
      if variant == "dense":
        Marg = host.sym_array("Mdense", (nworld, nv, nv), wp.float32)
      with la.HostRun(mode="exec", naming=False) as hr:
        support.mul_m(m, d2, res, vec, skip=skip, M=Marg)
      for e in hr.events:
        if e.kind == "launch":
          ctx.encode(e.kernel)
      sess = ctx.session([core.zbool(a) for a in hr.assumes])
      ctx.reach(sess, f"twin:{variant}", True)
      for w in range(nworld):
        v = [vec.ref.cell.d0[0][w * nv + j] for j in range(nv)]
        if variant == "dense":
          Dm = [[Marg.ref.cell.d0[0][(w * nv + i) * nv + j] for j in range(nv)] for i in range(nv)]
        else:
          Dm = la.dense_of(mjm, [Mc.d0[0][w * nC + a] for a in range(nC)])
        for i in range(nv):
          want = 0.0
          for j in range(nv):
            if not (isinstance(Dm[i][j], float) and Dm[i][j] == 0.0):
              want = arith("+", want, arith("*", Dm[i][j], v[j]))
          got = res.ref.cell.d[0][w * nv + i]
          guard = True
          if variant == "skip":
            sk = skip.ref.cell.d0[0][w]
            guard = Not(sk)
            ctx.prove(sess, f"{variant}/w{w}/skipped-keeps-res[{i}]", cmp("==", got, res.ref.cell.d0[0][w * nv + i]), sk, replay=mulm_replay(ctx, name, variant, f"keep{w}_{i}"), desc=f"mul_m ({name}): a skipped world's res[{i}] is overwritten")
          ctx.prove(sess, f"{variant}/w{w}/res[{i}]", cmp("==", got, want), guard, replay=mulm_replay(ctx, name, variant, f"res{w}_{i}"), desc=f"mul_m ({name}, {variant}): res[{i}] differs from row {i} of the dense product M vec")

  return (f"mulm/{name}", run)


def main(tier, seed, only=None):
  thorough = tier == "thorough"
  chol = ["chain2", "chain3", "mixed", "slides3+chain2", "chain4", "chain5", "chain6"]
  ldl = ["chain2", "chain3", "fork3", "ytree4", "block+ldl"] + (["fork3+slide+chain2", "chain4", "chain5", "ytree4+fork3", "chain6", "comb5"] if thorough else [])
  units = [unit_solve("chol", n, scratch=(n == "chain3"), leftinv=(n in ("chain5", "chain6"))) for n in chol]
  units += [unit_solve("ldl", n, scratch=(n in ("fork3", "block+ldl"))) for n in ldl]
  tile = ["fork3+chain2+fork3", "fork3+chain2+ytree4+slide+fork3+ytree4", "chain7+chain3+chain7", "tile1+tile2+tile1"] + (["chain8+chain2+chain7+chain8"] if thorough else [])
  units += [("tile/contracts", unit_tile_contracts)] + [unit_solve("tile", n, scratch=(n == "fork3+chain2+fork3")) for n in tile]
  units += [unit_mulm(n) for n in MULM]
  if only:
    units = [u for u in units if any(o in u[0] for o in only)]
  return report.run_check(PID, units, tier, seed)
