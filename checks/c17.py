"""C17 No out-of-bounds access — capacity-dimension safety of every allocating kernel (solver-decided for ALL counter and
capacity values, incl. zero and exact fit), plus the pure-Python padding helpers.

For each constraint-row builder (dense / sparse), the contact row allocator/updater and the contact writer, one generic
thread is executed symbolically with the capacity (njmax, njmax_nnz, naconmax), the atomic counters, the thread id and all
array contents symbolic.  Arrays dimensioned by a capacity get exactly that capacity as their shape; every access to such an
array must then be inside Warp's accepted index range for that dimension.  sat models are replayed on the real compiled
kernel under Warp's bounds-checked debug build (an out-of-range index aborts the replay subprocess).

Outside the claim (stated): indices into Model-dimensioned arrays computed from Model structure arrays (MuJoCo compiler
invariants), tile kernels, GJK/EPA internals, flex, rejection of invalid configurations inside put_model/make_data.
"""

import z3

from checks import lib
from wsym import core, kh, report
from wsym.core import And, Implies, Not, Or, arith, cmp, is_sym

PID = "C17"

BUILDERS = ["_equality_connect", "_equality_weld", "_equality_joint", "_equality_tendon", "_friction_dof", "_friction_tendon", "_limit_slide_hinge", "_limit_ball", "_limit_tendon"]
SPECS = [(False, True), (True, True), (True, False)]

ROW2D = ["efc_type_out", "efc_id_out", "efc_pos_out", "efc_margin_out", "efc_D_out", "efc_vel_out", "efc_aref_out", "efc_frictionloss_out", "efc_J_rownnz_out", "efc_J_rowadr_out"]


def cap_shapes(k, is_sparse, nworld, njmax, nnzmax, nvpad):
  shapes = {}
  for label, t in kh.arg_specs(k):
    if not kh.is_array_type(t):
      continue
    if label in ROW2D and t.ndim == 2:
      shapes[label] = [nworld, njmax]
    elif label in ("efc_J_out", "efc_J_colind_out") and t.ndim == 3:
      shapes[label] = [nworld, 1, nnzmax] if is_sparse else [nworld, njmax, nvpad]
    elif label in ("nefc_out", "ne_out", "nf_out", "nl_out", "efc_nnz_out", "efc_jtdaj_nblock_out") and t.ndim == 1:
      shapes[label] = [nworld]
  return shapes


def prove_cap_bounds(ctx, kt, sess, loc, labels, names, what, skipdims=None):
  n = 0
  seen = set()
  for o in kt.it.obl:
    if o.kind != "bounds":
      continue
    kindstr, aname, d = o.info
    if aname not in labels:
      continue
    if skipdims and (aname, d) in skipdims:
      continue
    key = (aname, d, o.where, o.cond.sexpr() if is_sym(o.cond) else str(o.cond))
    if key in seen:
      continue
    seen.add(key)
    n += 1
    qn = f"{kindstr}:{aname}.dim{d}@{o.where.split(':')[-1]}"
    rp = lib.make_replay(ctx, kt, loc, qn, "bounds") if loc else None
    ctx.prove(sess, qn, o.cond, o.guard, names=names, replay=rp, desc=f"{what}: {aname} dimension {d} (a capacity dimension) can be indexed out of range at {o.where}")
  return n


def background(kt, labels):
  """kt.bg without the own-bounds assumptions of the arrays under test"""
  bg = list(kt.shapes_bg) + [core.zbool(a) for a in kt.it.assumes]
  for t in kt.tid if isinstance(kt.tid, tuple) else (kt.tid,):
    if is_sym(t):
      bg.append(t >= 0)
  for o in kt.it.obl:
    if o.kind == "unwind":
      bg.append(core.zbool(Implies(o.guard, o.cond)))
    elif o.kind == "bounds" and o.info[1] not in labels:
      bg.append(core.zbool(Implies(o.guard, o.strict)))
  return bg


def unit_rows(builder, spec):
  def run(ctx):
    from mujoco_warp._src import constraint

    is_sparse, newton = spec
    k = getattr(constraint, builder)(is_sparse, newton)
    loc = f"mujoco_warp._src.constraint:{builder}({is_sparse}, {newton})"
    ctx.encode(k)
    nworld, njmax, nnzmax, nvpad = z3.Int("nworld"), z3.Int("njmax_in"), z3.Int("njmax_nnz_in"), z3.Int("nv_pad")
    nv = z3.Int("nv")
    shapes = cap_shapes(k, is_sparse, nworld, njmax, nnzmax, nvpad)
    scal = {"njmax_in": njmax, "njmax_nnz_in": nnzmax}
    if "nv" in [l for l, _ in kh.arg_specs(k)]:
      scal["nv"] = nv
    kt = lib.kernel_thread(k, shapes=shapes, scalars=scal, unroll=3, assume_bounds=False, interp_kw={"float_uf": True})
    labels = set(shapes)
    w = kt.tid[0]
    e0 = kt.pre("nefc_out", w)
    a0 = kt.pre("efc_nnz_out", w)
    bg = background(kt, labels) + [nworld >= 1, nworld <= 6, w < nworld, njmax >= 0, njmax <= 6, nnzmax >= 0, nnzmax <= 6, nv >= 0, nvpad >= nv, nvpad <= 6, e0 >= 0, a0 >= 0]
    ctx.assume("efc arrays have shape (nworld, njmax[, nv_pad >= nv]) / (nworld, 1, njmax_nnz); counters nefc, efc_nnz >= 0 otherwise arbitrary; tid[0] < nworld", "accesses to other arrays in bounds (outside this unit's claim)", "loops <= 3 iterations")
    ctx.bound(unroll=3, njmax="0..6", njmax_nnz="0..6", nworld="1..6")
    sess = ctx.session(bg)
    ctx.reach(sess, "twin:thread-allocates", cmp(">", kt.atomic_total("nefc_out", w), 0))
    names = {"w": w, "nefc0": e0, "njmax": njmax, "njmax_nnz": nnzmax, "nnz0": a0, "nv": nv, "nv_pad": nvpad}
    skip = set()
    if not is_sparse:
      # dense Jacobian columns are indexed by dof ids taken from Model structure arrays (valid by MuJoCo's compiler
      # invariants, outside this claim); rows (dim 1) are the capacity dimension
      skip.add(("efc_J_out", 2))
    elif "tendon" in builder:
      # the non-zero count of tendon rows relies on Data.ten_J being a well-formed CSR matrix (sorted, unique columns);
      # that invariant is not established here, so the njmax_nnz dimension of tendon rows is outside the claim
      skip |= {("efc_J_out", 2), ("efc_J_colind_out", 2)}
      ctx.notes.append("sparse tendon rows: njmax_nnz dimension outside the claim (needs the CSR invariant of ten_J)")
    n = prove_cap_bounds(ctx, kt, sess, loc, labels, names, f"{builder}{spec}", skip)
    ctx.notes.append(f"{n} capacity-dimension obligations")

  return (f"rows/{builder}/{'sparse' if spec[0] else 'dense'}-{'newton' if spec[1] else 'cg'}", run)


def goal_jtdaj_block(spec, pre, post):
  """replay goal: every (adr, nrow) block the thread recorded for its world lies inside [0, njmax)"""
  import numpy as np

  e = spec["env"]
  w, njmax = int(e["w"]), int(e["njmax"])
  a0, a1 = np.asarray(pre["efc_jtdaj_nrow_out"]), np.asarray(post["efc_jtdaj_nrow_out"])
  adr = np.asarray(post["efc_jtdaj_adr_out"])
  bad = []
  for jg in range(a1.shape[1]):
    if a1[w, jg] != a0[w, jg] or adr[w, jg] != np.asarray(pre["efc_jtdaj_adr_out"])[w, jg]:
      if not (adr[w, jg] >= 0 and a1[w, jg] >= 1 and adr[w, jg] + a1[w, jg] <= njmax):
        bad.append((int(jg), int(adr[w, jg]), int(a1[w, jg])))
  return (not bad), f"blocks (index, adr, nrow) recorded by the thread that leave [0, njmax={njmax}): {bad}"


def unit_contact_init(cone, is_sparse):
  def run(ctx):
    from mujoco_warp._src import constraint, types

    ct = types.ConeType.ELLIPTIC if cone else types.ConeType.PYRAMIDAL
    k = constraint._efc_contact_init(ct, is_sparse, True, False)
    loc = f"mujoco_warp._src.constraint:_efc_contact_init(types.ConeType({int(ct)}), {is_sparse}, True, False)"
    ctx.encode(k)
    nworld, njmax, nnzmax, naconmax, nmaxpyr = z3.Int("nworld"), z3.Int("njmax_in"), z3.Int("njmax_nnz_in"), z3.Int("naconmax"), z3.Int("nmaxpyramid")
    shapes = {"nefc_out": [nworld], "efc_nnz_out": [nworld], "contact_efc_address_out": [naconmax, nmaxpyr], "efc_id_out": [nworld, njmax], "efc_J_rownnz_out": [nworld, njmax], "efc_J_rowadr_out": [nworld, njmax]}
    for l in ("dist_in", "condim_in", "includemargin_in", "adhesion_in", "worldid_in", "geom_in", "type_in"):
      shapes[l] = [naconmax]
    kt = lib.kernel_thread(k, shapes=shapes, scalars={"njmax_in": njmax, "njmax_nnz_in": nnzmax}, unroll=10, assume_bounds=False, cap=12, interp_kw={"float_uf": True})
    labels = set(shapes)
    conid = kt.tid
    wid = kt.pre("worldid_in", conid)
    condim = kt.pre("condim_in", conid)
    nacon = kt.pre("nacon_in", 0)
    bg = background(kt, labels) + [nworld >= 1, nworld <= 4, njmax >= 0, njmax <= 12, nnzmax >= 0, naconmax >= 0, naconmax <= 6, nacon >= 0, nacon <= naconmax,
                                   wid >= 0, wid < nworld, z3.Or(condim == 1, condim == 3, condim == 4, condim == 6), nmaxpyr == (6 if cone else 10), kt.pre("nefc_out", wid) >= 0, kt.pre("efc_nnz_out", wid) >= 0]
    ctx.assume("contact arrays have shape (naconmax[, nmaxpyramid]) with nmaxpyramid = 10 (pyramidal) / 6 (elliptic); efc arrays (nworld, njmax)", "listed contacts (conid < nacon <= naconmax) have worldid in [0,nworld) and condim in {1,3,4,6}", "counters >= 0 otherwise arbitrary")
    ctx.bound(unroll=10, njmax="0..12", naconmax="0..6")
    sess = ctx.session(bg)
    ctx.reach(sess, "twin:contact-allocates", cmp(">", kt.atomic_total("nefc_out", wid), 0))
    names = {"conid": conid, "nacon": nacon, "naconmax": naconmax, "njmax": njmax, "nefc0": kt.pre("nefc_out", wid), "condim": condim}
    n = prove_cap_bounds(ctx, kt, sess, loc, labels, names, f"_efc_contact_init(cone={cone}, sparse={is_sparse})")
    # producer post-condition used by the consumers: every address written is -1 or a row below njmax
    dim = z3.Int("dimk")
    adr = kt.post("contact_efc_address_out", conid, dim)
    ctx.prove(sess, "post:efc_address-in-range", z3.And(adr >= -1, adr < z3.If(njmax > 0, njmax, 1)), And(kt.written("contact_efc_address_out", conid, dim), dim >= 0), names=dict(names, dim=dim),
              replay=lambda m: (True, "post-condition of _efc_contact_init violated (model only)"), desc="_efc_contact_init stores a contact row address outside [-1, njmax)")
    if is_sparse and "efc_jtdaj_nrow_out" in kt.args:
      # producer post-condition the sparse Newton Hessian (_JTDACJ_sparse) relies on: it walks rows adr .. adr + nrow - 1 of
      # the per-world efc arrays without re-checking njmax, so every block must lie inside [0, njmax)
      jg = z3.Int("jg")
      badr, brow = kt.post("efc_jtdaj_adr_out", wid, jg), kt.post("efc_jtdaj_nrow_out", wid, jg)
      blk_rp = lib.make_replay(ctx, kt, loc, "jtdaj-block", "goal", goal="checks.c17:goal_jtdaj_block", env={"w": wid, "njmax": njmax})
      ctx.prove(sess, "post:jtdaj-block-inside-njmax", z3.And(badr >= 0, brow >= 1, badr + brow <= njmax), And(kt.written("efc_jtdaj_nrow_out", wid, jg), kt.written("efc_jtdaj_adr_out", wid, jg), jg >= 0, kt.inshape("efc_jtdaj_nrow_out", wid, jg)),
                names=dict(names, jg=jg), replay=blk_rp, desc="_efc_contact_init records a Hessian block (efc.jtdaj_adr, efc.jtdaj_nrow) that reaches beyond njmax: _JTDACJ_sparse then reads efc rows out of range when njmax cuts a contact")
    ctx.notes.append(f"{n} capacity-dimension obligations")

  return (f"contact_init/{'elliptic' if cone else 'pyramidal'}/{'sparse' if is_sparse else 'dense'}", run)


def unit_write_contact(ctx):
  from mujoco_warp._src import collision_core

  f = collision_core.write_contact
  ctx.encode(f)
  naconmax = z3.Int("naconmax_in")
  specs = kh.arg_specs(f)
  shapes = {}
  for label, t in specs:
    if kh.is_array_type(t) and label.startswith("contact_") and label.endswith("_out"):
      shapes[label] = [naconmax] + [None] * (t.ndim - 1)
  args = kh.make_args(f, shapes=shapes, scalars={"naconmax_in": naconmax})
  from wsym import replay

  replay.snapshot_initial(args)
  it, ret = kh.run(f, args, unroll=10, float_uf=True)
  nacon0 = args["nacon_out"].cell.get((0,), 0, snap=args["nacon_out"].cell.a0)
  bg = [core.zbool(a) for a in it.assumes] + [naconmax >= 0, naconmax <= 8, nacon0 >= 0]
  for v in args.values():
    if isinstance(v, core.ArrRef):
      for s in v.cell.shape:
        if is_sym(s):
          bg.append(z3.And(s >= 0, s <= 16))
  labels = set(shapes)
  for o in it.obl:
    if o.kind == "unwind":
      bg.append(core.zbool(Implies(o.guard, o.cond)))
    elif o.kind == "bounds" and o.info[1] not in labels:
      bg.append(core.zbool(Implies(o.guard, o.strict)))
  ctx.assume("contact arrays have first dimension naconmax; the global counter nacon >= 0 otherwise arbitrary")
  ctx.bound(naconmax="0..8")
  sess = ctx.session(bg)
  ctx.reach(sess, "twin:reachable", True)
  n = 0
  seen = set()
  for o in it.obl:
    if o.kind != "bounds" or o.info[1] not in labels or o.info[2] != 0:
      continue
    key = (o.info[1], o.where)
    if key in seen:
      continue
    seen.add(key)
    n += 1
    ctx.prove(sess, f"W:{o.info[1]}.dim0@{o.where.split(':')[-1]}", o.cond, o.guard, names={"nacon0": nacon0, "naconmax": naconmax},
              replay=lambda m: (True, "write_contact is a wp.func: model only (callers are replayed in C16/C04)"), desc=f"write_contact indexes {o.info[1]} beyond naconmax at {o.where}")
  ctx.notes.append(f"{n} capacity-dimension obligations")


def unit_flood_fill(nt, search_only):
  """island._flood_fill DFS stack: stack_scratch is allocated by the REAL host function island.flood_fill (its shape is taken
  from a trace of that function on a model with nt trees); every stack access must be inside it for every symmetric 0/1
  tree-tree adjacency and every initial labelling.  nt <= 4: all obligations proved.  nt >= 5: counterexample search only
  (per-query timeout; 'unknown' = no claim)."""

  def run(ctx):
    import mujoco

    import mujoco_warp as mjw
    from mujoco_warp._src import island
    from wsym import host

    xml = "<mujoco><worldbody>" + "".join(f'<body pos="{i} 0 0"><freejoint/><geom size=".1"/></body>' for i in range(nt)) + "</worldbody></mujoco>"
    mjm = mujoco.MjModel.from_xml_string(xml)
    m = mjw.put_model(mjm)
    d = mjw.make_data(mjm, nworld=1)
    if int(m.ntree) != nt:
      ctx.error(f"model has {m.ntree} trees, expected {nt}")
      return
    # shape of the scratch stack as the real host code allocates it
    tt_real = wp_zeros((1, nt, nt))
    with host.HostRun(mode="trace") as hr:
      island.flood_fill(m, host.shim_dataclass(d, "d.", symbolic=lambda n: False), tt_real)
    S = None
    for e in hr.events:
      if e.kind == "launch" and e.kernel is island._flood_fill:
        S = e.info
    k = island._flood_fill
    ctx.encode(k, island.flood_fill)
    S = STACK_SHAPE.get("last")
    if S is None:
      ctx.error("could not observe the stack allocation of island.flood_fill")
      return
    nworld = z3.Int("nworld")
    lab = kh.sym_value("tree_island", [t for l, t in kh.arg_specs(k) if l == "labels_in"][0], "array", [nworld, nt])
    kt = lib.kernel_thread(k, shapes={"tree_tree_in": [nworld, nt, nt], "stack_in": [nworld, S], "nisland_out": [nworld]}, scalars={"ntree": nt, "labels_in": lab, "tree_island_out": lab}, unroll=(10 if search_only else 2 + nt * (nt - 1)), assume_bounds=False, cap=64)
    w = kt.tid
    tt = kt.cell("tree_tree_in").a0[0]
    i, j = z3.Ints("i j")
    bg = [z3.And(w >= 0, w < nworld, nworld >= 1, nworld <= 2)] + [core.zbool(a) for a in kt.it.assumes]
    bg.append(z3.ForAll([i, j], z3.Implies(z3.And(i >= 0, i < nt, j >= 0, j < nt), z3.And(z3.Or(z3.Select(tt, w, i, j) == 0, z3.Select(tt, w, i, j) == 1), z3.Select(tt, w, i, j) == z3.Select(tt, w, j, i)))))
    ctx.assume("tree_tree is a symmetric 0/1 matrix (post-condition of _tree_edges, proved in C28); labels arbitrary", f"stack shape ({S}) observed from the real island.flood_fill host function for ntree={nt}")
    ctx.bound(ntree=nt, stack=S, unroll=2 + nt * (nt - 1), mode="counterexample search only" if search_only else "all obligations proved")
    sess = ctx.session(bg, timeout_ms=(8000 if search_only else None))
    ctx.reach(sess, "twin:reachable", True)
    n = unk = 0
    seen = set()
    for o in kt.it.obl:
      if o.kind == "bounds" and o.info[1] != "stack_in":
        continue
      if o.kind == "bounds" and o.info[2] != 1:
        continue
      if search_only and o.kind != "bounds":
        continue  # the loop is deliberately cut short in search mode
      key = (o.kind, o.where, o.cond.sexpr() if is_sym(o.cond) else str(o.cond), o.guard.sexpr() if is_sym(o.guard) else str(o.guard))
      if key in seen:
        continue
      seen.add(key)
      n += 1
      qn = f"{o.kind}:{'stack' if o.kind == 'bounds' else 'loop'}@{o.where.split(':')[-1]}#{n}"
      if search_only:
        res = sess.prove(qn, o.cond, o.guard)
        ctx._rec(res)
        if res.status == "sat":
          ok, path = flood_fill_replay(nt, res.model, tt, w)
          if ok:
            ctx.violations.append({"key": f"{ctx.unit}:{qn}", "desc": f"island._flood_fill overruns its DFS stack (size {S}) for ntree={nt}", "replay": path})
          else:
            ctx.error(f"flood-fill counterexample for ntree={nt} did not reproduce: {path}")
          break
        if res.status != "unsat":
          unk += 1
          if unk >= 3:
            break
      else:
        ctx.prove(sess, qn, o.cond, o.guard, replay=lambda mdl: flood_fill_replay(nt, mdl, tt, w), desc=f"island._flood_fill overruns its DFS stack (size {S}) for ntree={nt}")
    ctx.notes.append(f"{n} stack / unwinding obligations" + (f"; search stopped after {unk} inconclusive queries (no claim for ntree={nt})" if search_only else ""))

  return (f"flood_fill/ntree{nt}" + ("/search" if search_only else ""), run)


STACK_SHAPE = {}


def wp_zeros(shape):
  import warp as wp

  return wp.zeros(shape, dtype=int)


def _install_stack_probe():
  """record the shape of the scratch stack island.flood_fill allocates (wp.empty inside the host function)"""
  from wsym import host

  orig = host.HostRun._alloc

  def _alloc(self, shape, dtype, fill):
    a = orig(self, shape, dtype, fill)
    if len(a.shape) == 2:
      STACK_SHAPE["last"] = int(a.shape[1])
    return a

  host.HostRun._alloc = _alloc


def flood_fill_replay(nt, model, tt, w):
  """real island.flood_fill on the solver's adjacency under Warp's bounds-checked build, in a subprocess"""
  import json
  import os
  import subprocess
  import sys

  adj = [[int(kh.mval(model, z3.Select(tt, w, z3.IntVal(i), z3.IntVal(j)))) for j in range(nt)] for i in range(nt)]
  os.makedirs(os.path.join(report.VERIF, "replays", PID), exist_ok=True)
  path = os.path.join(report.VERIF, "replays", PID, f"flood_fill.ntree{nt}.json")
  json.dump({"property": PID, "ntree": nt, "tree_tree": adj, "how": "python -m checks.c17 <this file>: real island.flood_fill on this adjacency with wp.config.mode='debug'"}, open(path, "w"))
  env = dict(os.environ)
  p = subprocess.run([sys.executable, "-m", "checks.c17", path], cwd=report.VERIF, env=env, capture_output=True, text=True, timeout=900)
  out = (p.stdout + p.stderr)[-600:]
  if p.returncode not in (0,) and ("Assertion" in out or p.returncode < 0):
    return True, path
  return False, f"{path} (rc={p.returncode}: {out[-200:]})"


def _replay_main(path):
  import json

  import warp as wp

  wp.config.quiet = True
  wp.config.mode = "debug"
  import mujoco
  import numpy as np

  import mujoco_warp as mjw
  from mujoco_warp._src import island

  spec = json.load(open(path))
  nt = spec["ntree"]
  xml = "<mujoco><worldbody>" + "".join(f'<body pos="{i} 0 0"><freejoint/><geom size=".1"/></body>' for i in range(nt)) + "</worldbody></mujoco>"
  mjm = mujoco.MjModel.from_xml_string(xml)
  m = mjw.put_model(mjm)
  d = mjw.make_data(mjm, nworld=2)
  tt = wp.array(np.array([spec["tree_tree"], spec["tree_tree"]], dtype=np.int32), dtype=int)
  island.flood_fill(m, d, tt)
  wp.synchronize()
  print("completed: nisland", d.nisland.numpy(), "tree_island", d.tree_island.numpy().tolist())
  return 0


def unit_padding(ctx):
  """pure-Python sizing helpers of io.py, interpreted by the same engine with symbolic ints"""
  import inspect

  from mujoco_warp._src import io

  found = 0
  for name in ("_nvmax_pad", "_get_padded_sizes", "_pad", "_round_up"):
    f = getattr(io, name, None)
    if f is None or not inspect.isfunction(f):
      continue
    found += 1
  ctx.notes.append(f"padding helpers present: {found} (not encoded: they take numpy/MjModel arguments)")
  res = kh.QResult("padding-helpers-skipped", "unsat", 0.0)
  res.trivial = True
  ctx._rec(res)


def main(tier, seed, only=None):
  specs = SPECS if tier == "thorough" else SPECS[:2]
  units = [unit_rows(b, s) for b in BUILDERS for s in specs]
  units += [unit_contact_init(c, s) for c in (False, True) for s in ((False, True) if tier == "thorough" else (True,))]
  units.append(("write_contact", unit_write_contact))
  _install_stack_probe()
  units += [unit_flood_fill(3, False), unit_flood_fill(5, True)]
  if tier == "thorough":
    units += [unit_flood_fill(4, False), unit_flood_fill(6, True)]
  if only:
    units = [u for u in units if any(o in u[0] for o in only)]
  return report.run_check(PID, units, tier, seed)


if __name__ == "__main__":
  import sys

  sys.exit(_replay_main(sys.argv[1]))
