"""C17 No out-of-bounds access on accepted inputs — bounded symbolic bounds check of every kernel the real step pipeline
launches on the corpus (kernels + specialisations + launch dims + argument bindings are harvested from the real host code
at check time; the `dim=` expression of each wp.launch call site is read from the host AST).

Per kernel: one generic thread, tid symbolic with tid_i < dim_i where dim_i is the named size written at the call site;
array shapes are the named dimensions of types.py (shared symbols: nworld, nv, njmax, naconmax, ...); capacities and
counters symbolic; all Data-side contents arbitrary (except listed data invariants).  Obligation: every access whose index
depends on the thread id, a capacity/counter, or Data-side contents is inside [-dim, dim) (Warp's accepted range).
Indices computed purely from Model structure arrays (body_parentid, jnt_dofadr, ...) are assumed valid (MuJoCo compiler
invariants) and are outside the claim.
"""

import dataclasses
import re

import z3

from checks import generic, lib
from wsym import core, harvest, kh, replay, report
from wsym.core import And, Implies, Not, Or, arith, cmp, is_sym

PID = "C17"
KS = {}

MODEL_OWNERS = ("Model", "Option", "Statistic")

# Data-side index arrays with established invariants (value ranges), as (label stem -> (lo, hi-name or int)).
# Each is a post-condition of its producer, checked for the producer kernel by the "producer" units below where encodable.
DATA_INVARIANTS = {
  "contact_worldid": (0, "nworld"),
  "contact_geom": (-1, "ngeom"),
  "contact_dim": (0, 7),
  "nacon": (0, None),
  "ncollision": (0, None),
  "nefc": (0, None),
  "ne": (0, None),
  "nf": (0, None),
  "nl": (0, None),
}


def sym_size(name):
  return z3.Int(f"size:{name}")


def resolve_dim(src):
  """'d.nworld' / 'm.nv' / 'm.foo.size' / 'm.foo.shape[0]' -> named size symbol or None"""
  src = src.strip()
  m = re.fullmatch(r"[dm]\.(n[a-zA-Z_0-9]*)", src)
  if m:
    return sym_size(m.group(1))
  m = re.fullmatch(r"[dm]\.(?:efc\.|contact\.|opt\.)?([a-zA-Z_0-9]+)\.(?:size|shape\[0\])", src)
  if m:
    sp = generic.spec_tables().get(m.group(1))
    if sp and len(sp[1]) == 1 and isinstance(sp[1][0], str):
      return sym_size(sp[1][0])
    if sp and isinstance(sp[1][0], str) and ".shape[0]" in src:
      return sym_size(sp[1][0])
  if re.fullmatch(r"\d+", src):
    return int(src)
  return None


def split_dims(dim_src):
  s = dim_src.strip()
  if s[0] in "([" and s[-1] in ")]":
    inner = s[1:-1]
    parts, depth, cur = [], 0, ""
    for ch in inner:
      if ch in "([":
        depth += 1
      if ch in ")]":
        depth -= 1
      if ch == "," and depth == 0:
        parts.append(cur)
        cur = ""
      else:
        cur += ch
    if cur.strip():
      parts.append(cur)
    return [p.strip() for p in parts]
  return [s]


def array_names(t, acc=None):
  """names of array constants a z3 term reads (Select bases), with the Select nodes"""
  acc = acc if acc is not None else []
  seen = set()

  def base_names(a):
    out = set()
    stack = [a]
    while stack:
      x = stack.pop()
      if z3.is_const(x) and x.decl().kind() == z3.Z3_OP_UNINTERPRETED:
        out.add(x.decl().name())
      else:
        stack.extend(x.children())
    return out

  def walk(x, under_model):
    if x.get_id() in seen:
      return
    seen.add(x.get_id())
    if z3.is_select(x):
      names = {n.split("#")[0] for n in base_names(x.arg(0)) if not n.startswith("size:")}
      acc.append((names, x))
      return  # do not descend: the read value is the leaf
    if z3.is_const(x) and x.decl().kind() == z3.Z3_OP_UNINTERPRETED:
      acc.append(({"@" + x.decl().name()}, x))
      return
    for c in x.children():
      walk(c, under_model)

  walk(t, False)
  return acc


def owner_of(label, binding=None):
  sp = generic.arg_spec(label)
  if binding:
    if binding.startswith("m."):
      return "Model"
    if binding.startswith("d."):
      return "Data"
  return sp[0] if sp else None


def unit_kernel(name):
  def run(ctx):
    k, loc, launches = KS[name]
    ctx.encode(k)
    if not launches:
      ctx.notes.append("not launched on the corpus")
      return
    specs = kh.arg_specs(k)
    L0 = launches[0]
    # ---- launch dims from the call-site source
    nd = lib.tid_ndim(k)
    dims = None
    for L in launches:
      if L.dim_src:
        parts = split_dims(L.dim_src)
        r = [resolve_dim(p) for p in parts]
        if dims is None:
          dims = r
        elif len(r) == len(dims):
          dims = [a if (a is not None and b is not None and str(a) == str(b)) else None for a, b in zip(dims, r)]
    if dims is None:
      dims = [None] * nd
    # ---- shapes from named dimensions
    shapes, scal = {}, {}
    owners = {}
    batch_syms, invkey = [], {}
    for i, (label, t) in enumerate(specs):
      bind = L0.binding[i] if i < len(L0.binding) else None
      owners[label] = owner_of(label, bind)
      if kh.is_array_type(t):
        sp = generic.arg_spec(label)
        if bind:
          key = bind.split(".", 1)[1].replace("efc.", "efc_").replace("contact.", "contact_").replace("opt.", "opt_")
          sp = generic.spec_tables().get(key, sp)
        shp = [None] * t.ndim
        if sp and len(sp[1]) == t.ndim:
          for j, dn in enumerate(sp[1]):
            if isinstance(dn, str) and dn != "*":
              shp[j] = sym_size(dn)
            elif isinstance(dn, int):
              shp[j] = dn
            elif dn == "*":
              shp[j] = z3.Int(f"batch:{label}")
              batch_syms.append(shp[j])
        shapes[label] = shp
        invkey[label] = (bind.split(".", 1)[1].replace("efc.", "efc_").replace("contact.", "contact_") if bind else generic.stem(label))
      else:
        st = generic.stem(label)
        vals = {L.scalars[i] for L in launches if i < len(L.scalars)}
        if core.scalar_kind(t) == "int" and all(isinstance(v, int) and not isinstance(v, bool) and L.sizes.get(st) == v for L in launches for v in [L.scalars[i]]):
          scal[label] = sym_size(st)
    try:
      kt = lib.kernel_thread(k, shapes=shapes, scalars=scal, unroll=2, alias_inout=True, cap=64, assume_bounds=False, interp_kw={"float_uf": True})
    except core.Unsupported as ex:
      ctx.notes.append(f"skipped (not encodable): {ex}")
      return
    it = kt.it
    tids = kt.tid if isinstance(kt.tid, tuple) else (kt.tid,)
    bg = list(kt.bg)
    sizes_used = set()
    for x in list(shapes.values()):
      for s in x or []:
        if is_sym(s):
          sizes_used.add(s)
    for s in sizes_used | {v for v in scal.values() if is_sym(v)}:
      bg.append(z3.And(s >= 0, s <= 64))
    tid_known = []
    for i, t in enumerate(tids):
      dsym = dims[i] if i < len(dims) else None
      if dsym is not None:
        bg.append(t < dsym)
        tid_known.append(True)
      else:
        tid_known.append(False)
    # data invariants
    for b in batch_syms:
      bg.append(z3.And(b >= 1, b <= 8))
    with_inv = set()
    for label, v in kt.args.items():
      st = invkey.get(label, generic.stem(label))
      if st in DATA_INVARIANTS:
        with_inv.add(label)
      if st in DATA_INVARIANTS and isinstance(v, core.ArrRef) and v.cell.mode == "array" and v.cell.dtype == "int":
        lo, hi = DATA_INVARIANTS[st]
        idx = [z3.Int(f"q!{j}") for j in range(v.cell.ndim)]
        for a0 in v.cell.a0:
          body = z3.Select(a0, *idx) >= lo
          if hi is not None:
            body = z3.And(body, z3.Select(a0, *idx) < (sym_size(hi) if isinstance(hi, str) else hi))
          bg.append(z3.ForAll(idx, body))
    ctx.assume(
      "array shapes = named dimensions of types.py; tid_i < dim_i with dim_i the named size at the wp.launch call site",
      "indices computed purely from Model structure arrays are valid (outside the claim)",
      "data invariants: " + ", ".join(f"{k} in [{v[0]},{v[1]})" for k, v in DATA_INVARIANTS.items()),
      "loops finish within the unroll bound (2)",
    )
    ctx.bound(unroll=2, size_cap=64)
    sess = ctx.session(bg, timeout_ms=10000 if ctx.tier == "quick" else 60000)
    tw = sess.reach("twin:thread-runs", True)
    ctx._rec(tw)
    if tw.status == "unsat":
      ctx.error("reachability twin unsat")
      return
    tidnames = {f"@{t.decl().name()}" for t in tids if is_sym(t)}
    inscope = skipped_model = skipped_tid = skipped_data = 0
    seen = set()
    for o in it.obl:
      if o.kind != "bounds":
        continue
      kindstr, aname, d = o.info
      cell = None
      for v in kt.args.values():
        if isinstance(v, core.ArrRef) and v.cell.name == aname:
          cell = v.cell
      cond = o.cond
      if cond is True:
        continue
      if not is_sym(cond):
        pass
      key = (aname, d, o.where, str(cond) if not is_sym(cond) else cond.sexpr())
      if key in seen:
        continue
      seen.add(key)
      # classify the index expression
      leaves = array_names(core.zbool(cond)) if is_sym(cond) else []
      has_model = has_data = has_tid = has_other = has_noinv = False
      free_shape = cell is not None and is_sym(cell.shape[d]) and ".shape" in str(cell.shape[d])
      unknown_tid = False
      for names, node in leaves:
        for n in names:
          if n.startswith("@"):
            if n in tidnames:
              has_tid = True
              i = [f"@{t.decl().name()}" for t in tids].index(n)
              if not tid_known[i]:
                unknown_tid = True
            elif n.startswith("@size:") or ".shape" in n:
              pass
            else:
              has_other = True
          else:
            own = owners.get(n)
            if own in MODEL_OWNERS:
              has_model = True
            else:
              has_data = True
              if n not in with_inv:
                has_noinv = True
      if has_model and not (has_tid or has_data):
        skipped_model += 1
        continue
      if has_noinv or free_shape:
        skipped_data += 1
        continue
      if unknown_tid:
        skipped_tid += 1
        continue
      inscope += 1
      qn = f"{kindstr}:{aname}[dim{d}]@{o.where}"
      rp = None
      if loc is not None:
        rp = lib.make_replay(ctx, kt, loc, qn, "bounds")
      ctx.prove(sess, qn, cond, o.guard, names={f"tid{i}": t for i, t in enumerate(tids)}, replay=rp, desc=f"{name}: {aname} dimension {d} can be indexed out of range at {o.where}")
    ctx.notes.append(f"{inscope} obligations in scope, {skipped_model} model-structure indices assumed valid, {skipped_tid} skipped (launch dim not resolvable: {L0.dim_src}), {skipped_data} outside (index read from a Data/scratch array without an established invariant, or array of unknown shape)")

  return (name, run)


def main(tier, seed, only=None):
  global KS
  KS = generic.all_kernels(with_harvest=True)
  names = sorted(n for n in KS if "flex" not in n.lower() and KS[n][2])
  if only:
    names = [n for n in names if any(o in n for o in only)]
  units = [unit_kernel(n) for n in names]
  from checks import worldidx

  enc = worldidx.load_encodable()
  return report.run_check(PID, units, tier, seed, unit_timeout=120 if tier == "quick" else 600, on_timeout=lambda n: "error" if (enc is not None and n in enc) else "skip")
