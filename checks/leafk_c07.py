"""Tiny real kernels around sensor._write_scalar / _write_vector: used only to REPLAY counterexamples on compiled code."""

import numpy as np
import warp as wp

from mujoco_warp._src import sensor
from mujoco_warp._src.types import vec6


@wp.kernel
def k_write_scalar(st: wp.array[int], dt: wp.array[int], adr: wp.array[int], cut: wp.array[float], x: wp.array[float], out: wp.array[float]):
  sensor._write_scalar(st, dt, adr, cut, 0, x[0], out)


@wp.kernel
def k_write_vec2(st: wp.array[int], dt: wp.array[int], adr: wp.array[int], cut: wp.array[float], x: wp.array[wp.vec2], out: wp.array[float]):
  sensor._write_vector(st, dt, adr, cut, 0, 2, x[0], out)


@wp.kernel
def k_write_vec3(st: wp.array[int], dt: wp.array[int], adr: wp.array[int], cut: wp.array[float], x: wp.array[wp.vec3], out: wp.array[float]):
  sensor._write_vector(st, dt, adr, cut, 0, 3, x[0], out)


@wp.kernel
def k_write_vec4(st: wp.array[int], dt: wp.array[int], adr: wp.array[int], cut: wp.array[float], x: wp.array[wp.quat], out: wp.array[float]):
  sensor._write_vector(st, dt, adr, cut, 0, 4, x[0], out)


@wp.kernel
def k_write_vec6(st: wp.array[int], dt: wp.array[int], adr: wp.array[int], cut: wp.array[float], x: wp.array[vec6], out: wp.array[float]):
  sensor._write_vector(st, dt, adr, cut, 0, 6, x[0], out)


_K = {1: (k_write_scalar, float), 2: (k_write_vec2, wp.vec2), 3: (k_write_vec3, wp.vec3), 4: (k_write_vec4, wp.quat), 6: (k_write_vec6, vec6)}


def run_write(dim, stype, dtype, cutoff, x):
  k, t = _K[dim]
  x = np.asarray(x, dtype=np.float32).reshape(-1)
  xin = wp.array(x if dim == 1 else x.reshape(1, -1), dtype=t, shape=(1,))
  out = wp.zeros(dim, dtype=float)
  ia = lambda v: wp.array(np.array([v], dtype=np.int32), dtype=int)
  wp.launch(k, dim=1, inputs=[ia(stype), ia(dtype), ia(0), wp.array(np.array([cutoff], dtype=np.float32), dtype=float), xin], outputs=[out])
  return out.numpy().astype(np.float64)
