"""C04 Collision detection agrees with MuJoCo C  (the encodable part).

Differential solver queries, exact real arithmetic, of the REAL wp.funcs against reference models written from MuJoCo's
semantics (each reference is first validated numerically against the installed `mujoco` library):

 params      contact_params (= contact_margin_gap + contact_material_params) vs mj_contactParam: explicit-pair override,
             priority, solmix weights incl. the < mjMINVAL cases, solref rule (both standard -> weighted mean, else
             element-wise min; a higher priority geom wins outright), solimp mix, friction max + unpack + mjMINMU floor,
             condim, margin / gap (sums in MuJoCo 3.13), adhesion
 write       write_contact: which candidates are recorded (dist < margin + gap unless the pair is filtered; collision-sensor
             pairs always), the slot (= old nacon), every Contact field of the slot, type bits, dim under adhesion,
             includemargin, efc_address = -1, capacity guard cid < naconmax, nothing else written, return value
 addpair     _nxn_broadphase -> _add_geom_pair: slot, geoms ordered by type, pair ids copied, world id, capacity guard
 geometry    the closed-form primitives (plane_sphere, sphere_sphere, sphere_capsule, plane_capsule) vs closed-form
             references (shared with C20: checks/geom_c20.py)

Outside: GJK/EPA, multi-contact CCD, heightfield, SDF, mesh, box and cylinder/ellipsoid pairs (iterative float algorithms
with data dependent loops), the multiset-of-contacts statement as a whole, float32 rounding.
"""

import json
import os

import numpy as np
import z3

from checks import lib
from wsym import core, kh, report
from wsym.core import And, Implies, Not, Or, arith, cmp, is_sym, ite, vmax, vmin

PID = "C04"

MINVAL = 1e-15  # mjMINVAL
MINMU = 1e-5  # mjMINMU

# ------------------------------------------------------------------------------------------------ reference models
# written from MuJoCo's engine_collision_driver.c (mj_contactParam / mj_collideGeoms, 3.13 semantics); polymorphic:
# python floats / ints or z3 terms.


def _add(a, b):
  return arith("+", a, b)


def _mul(a, b):
  return arith("*", a, b)


def _lerp(mix, a, b):
  """mix*a + (1-mix)*b"""
  return _add(_mul(mix, a), _mul(arith("-", 1.0, mix), b))


def ref_solmix(s1, s2):
  big1, big2 = cmp(">=", s1, MINVAL), cmp(">=", s2, MINVAL)
  both_small = And(Not(big1), Not(big2))
  # the quotient is only used when both weights are >= mjMINVAL (so the divisor is positive)
  den = ite(And(big1, big2), _add(s1, s2), 1.0)
  return ite(And(big1, big2), arith("/", s1, den), ite(both_small, 0.5, ite(Not(big1), 0.0, 1.0)))


def ref_geom_mix(G1, G2):
  """G = dict(condim, priority, solmix, solref[2], solimp[5], friction[3], margin, gap, adhesion) -> contact parameters"""
  hi1 = cmp(">", G1["priority"], G2["priority"])
  hi2 = cmp(">", G2["priority"], G1["priority"])
  same = And(Not(hi1), Not(hi2))

  def pick(f1, f2, fsame):
    return ite(hi1, f1, ite(hi2, f2, fsame))

  mix = ref_solmix(G1["solmix"], G2["solmix"])
  condim = pick(G1["condim"], G2["condim"], vmax(G1["condim"], G2["condim"]))
  standard = And(cmp(">", G1["solref"][0], 0.0), cmp(">", G2["solref"][0], 0.0))
  solref = [pick(G1["solref"][i], G2["solref"][i], ite(standard, _lerp(mix, G1["solref"][i], G2["solref"][i]), vmin(G1["solref"][i], G2["solref"][i]))) for i in range(2)]
  solimp = [pick(G1["solimp"][i], G2["solimp"][i], _lerp(mix, G1["solimp"][i], G2["solimp"][i])) for i in range(5)]
  fri3 = [pick(G1["friction"][i], G2["friction"][i], vmax(G1["friction"][i], G2["friction"][i])) for i in range(3)]
  friction = [vmax(MINMU, fri3[j]) for j in (0, 0, 1, 2, 2)]
  adhesion = pick(G1["adhesion"], G2["adhesion"], _add(G1["adhesion"], G2["adhesion"]))
  return {
    "margin": _add(G1["margin"], G2["margin"]),
    "gap": _add(G1["gap"], G2["gap"]),
    "condim": condim,
    "friction": friction,
    "solref": solref,
    "solreffriction": [0.0, 0.0],
    "solimp": solimp,
    "adhesion": adhesion,
  }


def ref_pair(Pr):
  """explicit <contact><pair>: everything comes from the pair_* arrays; friction floored at mjMINMU"""
  out = dict(Pr)
  out["friction"] = [vmax(MINMU, f) for f in Pr["friction"]]
  return out


def ref_contact_param(G1, G2, Pr, pairid):
  a, b = ref_pair(Pr), ref_geom_mix(G1, G2)
  use = cmp(">=", pairid, 0)
  out = {}
  for k in b:
    out[k] = [ite(use, x, y) for x, y in zip(a[k], b[k])] if isinstance(b[k], list) else ite(use, a[k], b[k])
  return out


FIELDS = {"margin": 1, "gap": 1, "condim": 1, "friction": 5, "solref": 2, "solreffriction": 2, "solimp": 5, "adhesion": 1}


def ref_recorded(dist, margin, gap, pairid0, pairid1):
  """mj_collision keeps a candidate iff dist < margin + gap (3.13: in-gap contacts are kept, marked excluded); a pair that
  failed the filter (-2) is only visited for a collision sensor (pairid1 >= 0), which records it regardless of distance"""
  detected = cmp("<", dist, _add(margin, gap))
  return Or(And(cmp("!=", pairid0, -2), detected), cmp(">=", pairid1, 0))


def ref_dim(dist, margin, condim, adhesion):
  """adhesive contact inside the gap (dist >= margin) is a pure normal (dim 1) contact"""
  return ite(And(cmp("!=", adhesion, 0.0), cmp(">=", dist, margin)), 1, condim)


# ------------------------------------------------------------------------------------------------ validation vs mujoco

_XML_GEOM = """<mujoco><worldbody><geom name="a" type="plane" size="5 5 .1" adhesion="1"/>
<body pos="0 0 0.05"><freejoint/><geom name="b" size=".1"/></body></worldbody>{pair}</mujoco>"""
_XML_REV = """<mujoco><worldbody><geom name="a" type="capsule" size=".1 .2" adhesion="1"/>
<body pos="0 0 0.15"><freejoint/><geom name="b" size=".1"/></body></worldbody>{pair}</mujoco>"""
_PAIR = '<contact><pair geom1="a" geom2="b"/></contact>'


def _rand_geom(rng):
  return {
    "condim": int(rng.choice([1, 3, 4, 6])),
    "priority": int(rng.choice([-1, 0, 0, 1, 2])),
    "solmix": float(rng.choice([0.0, 1e-16, -1.0, 0.3, 1.0, 2.5, rng.uniform(0, 3)])),
    "solref": [float(rng.choice([rng.uniform(0.005, 0.1), -rng.uniform(10, 2000), 0.0])), float(rng.choice([rng.uniform(0.1, 2), -rng.uniform(1, 100)]))],
    "solimp": [float(x) for x in rng.uniform(0.01, 0.99, 5)],
    "friction": [float(rng.choice([0.0, 1e-7, rng.uniform(0, 2)])) for _ in range(3)],
    "margin": float(rng.choice([0.0, rng.uniform(0, 0.05)])),
    "gap": float(rng.choice([0.0, rng.uniform(0, 0.05)])),
    "adhesion": float(rng.choice([0.0, rng.uniform(0, 3)])),
  }


def _rand_pair(rng):
  g = _rand_geom(rng)
  g.pop("priority"), g.pop("solmix")
  g["friction"] = [float(rng.choice([0.0, 1e-7, rng.uniform(0, 2)])) for _ in range(5)]
  g["solreffriction"] = [float(rng.uniform(-1, 1)), float(rng.uniform(-1, 1))]
  return g


def _set_geom(m, gid, G):
  m.geom_condim[gid], m.geom_priority[gid], m.geom_solmix[gid] = G["condim"], G["priority"], G["solmix"]
  m.geom_solref[gid], m.geom_solimp[gid], m.geom_friction[gid] = G["solref"], G["solimp"], G["friction"]
  m.geom_margin[gid], m.geom_gap[gid], m.geom_adhesion[gid] = G["margin"], G["gap"], G["adhesion"]


def _set_pair(m, Pr):
  m.pair_dim[0], m.pair_friction[0], m.pair_solref[0], m.pair_solreffriction[0] = Pr["condim"], Pr["friction"], Pr["solref"], Pr["solreffriction"]
  m.pair_solimp[0], m.pair_margin[0], m.pair_gap[0], m.pair_adhesion[0] = Pr["solimp"], Pr["margin"], Pr["gap"], Pr["adhesion"]


def _contact_fields(c):
  return {"margin": c.includemargin, "condim": c.dim, "friction": list(c.friction), "solref": list(c.solref), "solreffriction": list(c.solreffriction), "solimp": list(c.solimp), "adhesion": c.adhesion}


def _close(a, b, tol=1e-9):
  a, b = np.atleast_1d(np.asarray(a, dtype=float)), np.atleast_1d(np.asarray(b, dtype=float))
  return bool(np.all(np.abs(a - b) <= tol * (1 + np.abs(a) + np.abs(b))))


def validate_params(seed, n=150):
  """reference mj_contactParam vs mujoco.mj_collision on random parameter sets -> list of mismatch texts"""
  import mujoco

  rng = np.random.default_rng(seed)
  bad = []
  dummy_pair = {"condim": 1, "friction": [0.0] * 5, "solref": [0.0] * 2, "solreffriction": [0.0] * 2, "solimp": [0.0] * 5, "margin": 0.0, "gap": 0.0, "adhesion": 0.0}
  for xml in (_XML_GEOM, _XML_REV):
    for with_pair in (False, True):
      m = mujoco.MjModel.from_xml_string(xml.format(pair=_PAIR if with_pair else ""))
      d = mujoco.MjData(m)
      for _ in range(n):
        G = [_rand_geom(rng), _rand_geom(rng)]
        Pr = _rand_pair(rng) if with_pair else dummy_pair
        for gid in (0, 1):
          _set_geom(m, gid, G[gid])
        if with_pair:
          _set_pair(m, Pr)
        mujoco.mj_kinematics(m, d)
        mujoco.mj_collision(m, d)
        if d.ncon != 1:
          bad.append(f"validation scene produced {d.ncon} contacts")
          continue
        c = d.contact[0]
        g1, g2 = int(c.geom[0]), int(c.geom[1])
        ref = ref_contact_param(G[g1], G[g2], Pr, 0 if with_pair else -1)
        got = _contact_fields(c)
        # an adhesive contact inside the gap is reported with dim 1 (write rule, validated separately): scene is penetrating
        for k, v in got.items():
          if not _close(v, ref[k]):
            bad.append(f"reference {k}={ref[k]} but mujoco {v} for geoms {G[g1]} / {G[g2]} pair={Pr if with_pair else None}")
  return bad


def validate_write(seed, n=120):
  """recording rule / includemargin / dim-under-adhesion vs mujoco on a sphere above a plane at random heights"""
  import mujoco

  rng = np.random.default_rng(seed + 1)
  bad = []
  for _ in range(n):
    mg = [float(rng.uniform(0, 0.03)) for _ in range(2)]
    gp = [float(rng.choice([0.0, rng.uniform(0, 0.03)])) for _ in range(2)]
    ad = [float(rng.choice([0.0, 0.0, rng.uniform(0.1, 2)])) for _ in range(2)]
    margin, gap = mg[0] + mg[1], gp[0] + gp[1]
    dist = float(rng.choice([rng.uniform(-0.05, margin), rng.uniform(margin, margin + gap + 1e-9), rng.uniform(margin + gap, margin + gap + 0.02)]))
    if min(abs(dist - margin), abs(dist - margin - gap)) < 1e-6:
      continue
    condim = int(rng.choice([1, 3, 4, 6]))
    xml = f"""<mujoco><worldbody><geom type="plane" size="5 5 .1" margin="{mg[0]}" gap="{gp[0]}" adhesion="{ad[0]}" condim="{condim}"/>
<body pos="0 0 {0.1 + dist}"><freejoint/><geom size=".1" margin="{mg[1]}" gap="{gp[1]}" adhesion="{ad[1]}" condim="{condim}"/></body></worldbody></mujoco>"""
    m = mujoco.MjModel.from_xml_string(xml)
    d = mujoco.MjData(m)
    mujoco.mj_kinematics(m, d)
    mujoco.mj_collision(m, d)
    want = bool(ref_recorded(dist, margin, gap, -1, -1))
    if (d.ncon == 1) != want:
      bad.append(f"recording rule: dist={dist} margin={margin} gap={gap}: reference recorded={want}, mujoco ncon={d.ncon}")
      continue
    if d.ncon:
      c = d.contact[0]
      if not _close(c.includemargin, margin) or int(c.dim) != ref_dim(dist, margin, condim, ad[0] + ad[1]) or not _close(c.adhesion, ad[0] + ad[1]):
        bad.append(f"write rule: dist={dist} margin={margin} gap={gap} adhesion={ad}: mujoco includemargin={c.includemargin} dim={c.dim} adhesion={c.adhesion}")
  return bad


# ------------------------------------------------------------------------------------------------ unit: params

OUT1 = ["geoms_out", "margin_out", "gap_out", "condim_out", "friction_out", "solref_out", "solreffriction_out", "solimp_out", "adhesion_out"]


def _wmod(kt, label, worldid):
  n = kt.cell(label).shape[0]
  if not is_sym(n) and n == 0:
    return 0
  return arith("%", worldid, n)


def batch_rows(kt):
  """every per-world model array has at least one batch row (put_model allocates (nworld or 1, n))"""
  out = []
  for lbl, v in kt.args.items():
    if isinstance(v, core.ArrRef) and v.cell.ndim == 2 and not lbl.endswith("_out") and is_sym(v.cell.shape[0]):
      out.append(v.cell.shape[0] >= 1)
  return out


def _read_inputs(kt, getter):
  """(G1, G2, Pr, pairid, g1, g2) read from the kernel's input arrays with `getter(label, *idx, k=)`"""
  cid, worldid = kt.args["cid"], kt.args["worldid"]
  g1, g2 = getter("collision_pair_in", cid, k=0), getter("collision_pair_in", cid, k=1)
  pairid = getter("collision_pairid_in", cid, k=0)

  def w(label):
    return _wmod(kt, label, worldid)

  def geom(g):
    return {
      "condim": getter("geom_condim", g),
      "priority": getter("geom_priority", g),
      "solmix": getter("geom_solmix", w("geom_solmix"), g),
      "solref": [getter("geom_solref", w("geom_solref"), g, k=i) for i in range(2)],
      "solimp": [getter("geom_solimp", w("geom_solimp"), g, k=i) for i in range(5)],
      "friction": [getter("geom_friction", w("geom_friction"), g, k=i) for i in range(3)],
      "margin": getter("geom_margin", w("geom_margin"), g),
      "gap": getter("geom_gap", w("geom_gap"), g),
      "adhesion": getter("geom_adhesion", w("geom_adhesion"), g),
    }

  Pr = {
    "condim": getter("pair_dim", pairid),
    "friction": [getter("pair_friction", w("pair_friction"), pairid, k=i) for i in range(5)],
    "solref": [getter("pair_solref", w("pair_solref"), pairid, k=i) for i in range(2)],
    "solreffriction": [getter("pair_solreffriction", w("pair_solreffriction"), pairid, k=i) for i in range(2)],
    "solimp": [getter("pair_solimp", w("pair_solimp"), pairid, k=i) for i in range(5)],
    "margin": getter("pair_margin", w("pair_margin"), pairid),
    "gap": getter("pair_gap", w("pair_gap"), pairid),
    "adhesion": getter("pair_adhesion", w("pair_adhesion"), pairid),
  }
  return geom(g1), geom(g2), Pr, pairid, g1, g2


def goal_params(spec, pre, post):
  """replay goal: the real contact_params output equals the reference evaluated on the same (float32) inputs"""
  a = spec["args"]
  cid, worldid = int(a["cid"]["scalar"]), int(a["worldid"]["scalar"])
  field = spec["env"]["field"]

  class _KT:
    args = {"cid": cid, "worldid": worldid}

    class _C:
      def __init__(self, shape):
        self.shape = shape

    def cell(self, label):
      return self._C(pre[label].shape)

  def getter(label, *idx, k=0):
    arr = pre[label]
    idx = tuple(int(i) for i in idx)
    if any(i < 0 or i >= s for i, s in zip(idx, arr.shape)):
      return 0.0  # outside: value irrelevant to the selected branch
    v = arr[idx]
    v = np.asarray(v).reshape(-1)[k]
    return int(v) if arr.dtype.kind == "i" else float(v)

  G1, G2, Pr, pairid, g1, g2 = _read_inputs(_KT(), getter)
  ref = ref_contact_param(G1, G2, Pr, pairid)
  got = np.asarray(post[field + "_out"][0]).reshape(-1)
  want = np.asarray(ref[field], dtype=float).reshape(-1)
  ok = all(lib.approx(x, y, rtol=1e-4, atol=1e-7) for x, y in zip(got, want))
  return ok, f"contact_params {field}: real kernel {got.tolist()} vs MuJoCo rule {want.tolist()} (pairid {pairid}, geoms {g1},{g2}: {G1} / {G2})"


def _robust_replay(ctx, sess, kt, loc, name, goal_fn, env, diffs, guard):
  """replay closure: first try to obtain a model whose difference is well above float32 noise (better replay), fall back
  to the solver's own model"""
  base = lib.make_replay(ctx, kt, loc, name, "goal", goal=goal_fn, env=env)

  def _rp(model):
    big = Or(*[Or(cmp(">", arith("-", a, b), 0.01), cmp(">", arith("-", b, a), 0.01)) for a, b in diffs])
    sane = []
    r, _, m2 = sess._check([guard, big] + sane)
    if r == "sat":
      ok, path = base(m2)
      if ok:
        return ok, path
    return base(model)

  return _rp


def unit_params(ctx):
  from mujoco_warp._src import collision_core as cc

  from checks import wrap_c04

  bad = validate_params(ctx.seed, 150 if ctx.tier == "quick" else 600)
  bad += validate_write(ctx.seed, 120 if ctx.tier == "quick" else 500)
  for b in bad[:5]:
    ctx.error("reference model disagrees with the mujoco library: " + b)
  if bad:
    return
  ctx.notes.append("reference mj_contactParam / recording rule validated against mujoco on random parameter sets (plane-sphere and sphere-capsule, with and without an explicit pair)")
  k = wrap_c04.k_contact_params
  loc = "checks.wrap_c04:k_contact_params"
  ctx.encode(cc.contact_params, cc.contact_margin_gap, cc.contact_material_params)
  ctx.bound(note="no loops; all array shapes, world id, pair id, geom ids and every model value symbolic (reals)")
  ctx.assume("worldid >= 0, cid and all derived indices in range (C17 decides bounds)", "the two geoms of a pair are distinct", "per-world model arrays have >= 1 batch row", "floats are reals (rounding outside the claim)")
  kt = lib.kernel_thread(k, shapes={o: [1] for o in OUT1}, cap=4)
  worldid = kt.args["worldid"]
  G1, G2, Pr, pairid, g1, g2 = _read_inputs(kt, kt.pre)
  ref = ref_contact_param(G1, G2, Pr, pairid)
  bg = kt.bg + [worldid >= 0, g1 != g2, pairid >= -2] + batch_rows(kt)
  sess = ctx.session(bg)
  ctx.reach(sess, "twin:explicit-pair", pairid >= 0)
  ctx.reach(sess, "twin:geom-mix-equal-priority", And(pairid < 0, cmp("==", G1["priority"], G2["priority"]), cmp(">", G1["solmix"], 1), cmp(">", G2["solmix"], 1)))
  ctx.reach(sess, "twin:geom-priority", And(pairid < 0, cmp(">", G1["priority"], G2["priority"])))
  names = {"pairid": pairid, "g1": g1, "g2": g2, "worldid": worldid, "p1": G1["priority"], "p2": G2["priority"], "solmix1": G1["solmix"], "solmix2": G2["solmix"]}
  names.update({f"solref1_{i}": G1["solref"][i] for i in range(2)})
  names.update({f"solref2_{i}": G2["solref"][i] for i in range(2)})
  names.update({"condim1": G1["condim"], "condim2": G2["condim"]})
  ok_geoms = And(cmp("==", kt.post("geoms_out", 0, k=0), g1), cmp("==", kt.post("geoms_out", 0, k=1), g2))
  ctx.prove(sess, "material/geoms", ok_geoms, names=names, replay=lambda m: (False, "no replay for geoms"), desc="contact_params returns other geoms than the broadphase pair")
  for f, n in FIELDS.items():
    impl = [kt.post(f + "_out", 0, k=i) for i in range(n)]
    want = ref[f] if isinstance(ref[f], list) else [ref[f]]
    goal = And(*[cmp("==", a, b) for a, b in zip(impl, want)])
    rp = _robust_replay(ctx, sess, kt, loc, f"material/{f}", "checks.c04:goal_params", {"field": f}, list(zip(impl, want)), Not(goal))
    ctx.prove(sess, f"material/{f}", goal, names=names, replay=rp, desc=f"contact parameter '{f}' computed by contact_params differs from MuJoCo's mj_contactParam rule")


# ------------------------------------------------------------------------------------------------ unit: write_contact

CONTACT_OUT = {
  "contact_dist_out": 1, "contact_pos_out": 3, "contact_frame_out": 9, "contact_includemargin_out": 1, "contact_friction_out": 5,
  "contact_solref_out": 2, "contact_solreffriction_out": 2, "contact_solimp_out": 5, "contact_dim_out": 1, "contact_geom_out": 2,
  "contact_worldid_out": 1, "contact_type_out": 1, "contact_geomcollisionid_out": 1, "contact_adhesion_out": 1,
}  # + contact_efc_address_out (2-d)


def _comps(v):
  return list(v.c) if isinstance(v, core.Vec) else [v]


def ref_written_contact(A):
  """A: dict of write_contact's scalar/vector inputs (lists of components) -> expected Contact fields of the slot"""
  detected = cmp("<", A["dist_in"][0], _add(A["margin_in"][0], A["gap_in"][0]))
  ctype = _add(ite(And(cmp("!=", A["pairid_in"][0], -2), detected), 1, 0), ite(cmp(">=", A["pairid_in"][1], 0), 2, 0))
  return {
    "contact_dist_out": A["dist_in"], "contact_pos_out": A["pos_in"], "contact_frame_out": A["frame_in"],
    "contact_includemargin_out": A["margin_in"], "contact_friction_out": A["friction_in"], "contact_solref_out": A["solref_in"],
    "contact_solreffriction_out": A["solreffriction_in"], "contact_solimp_out": A["solimp_in"],
    "contact_dim_out": [ref_dim(A["dist_in"][0], A["margin_in"][0], A["condim_in"][0], A["adhesion_in"][0])],
    "contact_geom_out": A["geoms_in"], "contact_worldid_out": A["worldid_in"], "contact_type_out": [ctype],
    "contact_geomcollisionid_out": A["id_"], "contact_adhesion_out": A["adhesion_in"],
  }


def ref_active(A):
  d, mg, gp, ad = A["dist_in"][0], A["margin_in"][0], A["gap_in"][0], A["adhesion_in"][0]
  return Or(cmp("<", d, mg), And(cmp("!=", ad, 0.0), cmp("<", d, _add(mg, gp))))


WRITE_IN = ["id_", "dist_in", "pos_in", "frame_in", "margin_in", "gap_in", "condim_in", "friction_in", "solref_in", "solreffriction_in", "solimp_in", "adhesion_in", "geoms_in", "pairid_in", "worldid_in"]


def goal_write(spec, pre, post):
  """replay goal: the real write_contact leaves exactly the reference state (counter, slot contents, everything else untouched)"""
  a = spec["args"]
  A = {k: (list(a[k]["vec"]) if "vec" in a[k] else [a[k]["scalar"]]) for k in WRITE_IN}
  for k in ("dist_in", "margin_in", "gap_in", "adhesion_in"):
    A[k] = [float(np.float32(A[k][0]))]
  naconmax = int(a["naconmax_in"]["scalar"])
  n0 = int(pre["nacon_out"][0])
  rec = bool(ref_recorded(A["dist_in"][0], A["margin_in"][0], A["gap_in"][0], A["pairid_in"][0], A["pairid_in"][1]))
  msgs = []
  if int(post["nacon_out"][0]) != n0 + (1 if rec else 0):
    msgs.append(f"nacon {n0} -> {int(post['nacon_out'][0])}, MuJoCo rule records the candidate: {rec}")
  want = ref_written_contact(A)
  slot_ok = rec and 0 <= n0 < naconmax
  for F in list(CONTACT_OUT) + ["contact_efc_address_out"]:
    exp = pre[F].copy()
    if slot_ok and n0 < exp.shape[0]:
      if F == "contact_efc_address_out":
        exp[n0, :] = -1
      else:
        exp[n0] = np.asarray(want[F], dtype=float).reshape(exp[n0].shape)
    if not np.allclose(post[F].astype(float), exp.astype(float), rtol=1e-5, atol=1e-6):
      msgs.append(f"{F}: real {post[F].tolist()} expected {exp.tolist()} (slot {n0}, naconmax {naconmax}, recorded {rec})")
  ret = int(post["ret_out"][0])
  wret = int(bool(ref_active(A))) if slot_ok else 0
  if ret != wret:
    msgs.append(f"return value {ret}, documented {wret}")
  inp = {k: A[k] for k in ("dist_in", "margin_in", "gap_in", "adhesion_in", "condim_in", "pairid_in")}
  return (not msgs), "write_contact " + "; ".join(msgs[:4]) + f" inputs {inp}"


def unit_write(ctx):
  from mujoco_warp._src import collision_core as cc

  from checks import wrap_c04

  bad = validate_write(ctx.seed, 60 if ctx.tier == "quick" else 300)
  for b in bad[:5]:
    ctx.error("reference model disagrees with the mujoco library: " + b)
  if bad:
    return
  k = wrap_c04.k_write_contact
  loc = "checks.wrap_c04:k_write_contact"
  ctx.encode(cc.write_contact)
  ncap = 4
  ctx.bound(unroll=ncap + 1, shape_cap=ncap, note="contact arrays have naconmax rows (symbolic, <= 4), efc_address columns symbolic (<= 4); every input symbolic")
  ctx.assume("0 <= nacon; contact arrays are allocated with naconmax rows (make_data)", "pairid[0] >= -2, pairid[1] >= -1 (values put_model produces)", "floats are reals")
  naconmax = z3.Int("naconmax_in")
  shapes = {F: [naconmax] for F in CONTACT_OUT}
  shapes["contact_efc_address_out"] = [naconmax, None]
  shapes["nacon_out"] = [1]
  shapes["ret_out"] = [1]
  kt = lib.kernel_thread(k, shapes=shapes, scalars={"naconmax_in": naconmax}, unroll=ncap + 1, cap=ncap, assume_bounds=False)
  A = {kk: _comps(kt.args[kk]) for kk in WRITE_IN}
  n0 = kt.pre("nacon_out", 0)
  pid0, pid1 = A["pairid_in"]
  bg = kt.bg + [naconmax >= 0, naconmax <= ncap, n0 >= 0, pid0 >= -2, pid1 >= -1]
  sess = ctx.session(bg)
  rec = ref_recorded(A["dist_in"][0], A["margin_in"][0], A["gap_in"][0], pid0, pid1)
  fits = cmp("<", n0, naconmax)
  ctx.reach(sess, "twin:recorded-and-fits", And(rec, fits))
  ctx.reach(sess, "twin:in-gap-adhesive", And(rec, fits, cmp("!=", A["adhesion_in"][0], 0.0), cmp(">=", A["dist_in"][0], A["margin_in"][0])))
  ctx.reach(sess, "twin:overflow", And(rec, Not(fits)))
  names = {"nacon0": n0, "naconmax": naconmax, "dist": A["dist_in"][0], "margin": A["margin_in"][0], "gap": A["gap_in"][0], "adhesion": A["adhesion_in"][0], "condim": A["condim_in"][0], "pairid0": pid0, "pairid1": pid1}
  rp = lib.make_replay(ctx, kt, loc, "write", "goal", goal="checks.c04:goal_write")
  # own bounds: the capacity guard must keep every access inside the naconmax rows
  for i, o in enumerate(kt.it.obl):
    if o.kind == "bounds":
      ctx.prove(sess, f"capacity-guard/in-bounds@{o.where}#{i}", o.strict, o.guard, names=names, replay=lib.make_replay(ctx, kt, loc, f"bounds{i}", "bounds"), desc=f"write_contact accesses a contact array outside its naconmax rows at {o.where}")
  ctx.prove(sess, "counter", cmp("==", kt.atomic_total("nacon_out", 0), ite(rec, 1, 0)), names=names, replay=rp, desc="write_contact advances nacon although MuJoCo would not record the candidate (or the reverse)")
  want = ref_written_contact(A)
  i = z3.Int("i")
  for F, n in CONTACT_OUT.items():
    goal = And(*[cmp("==", kt.post(F, n0, k=c), want[F][c]) for c in range(n)])
    ctx.prove(sess, f"slot/{F}", goal, And(rec, fits), names=names, replay=rp, desc=f"recorded contact: {F} of slot nacon0 is not the value MuJoCo reports")
    ctx.prove(sess, f"no-other-write/{F}", Implies(kt.written(F, i), And(rec, fits, i == n0)), names=dict(names, i=i), replay=rp, desc=f"write_contact stores to {F} outside the allocated slot / without recording")
  j = z3.Int("j")
  inj = And(j >= 0, cmp("<", j, kt.cell("contact_efc_address_out").shape[1]))
  ctx.prove(sess, "slot/contact_efc_address_out", cmp("==", kt.post("contact_efc_address_out", n0, j), -1), And(rec, fits, inj), names=dict(names, j=j), replay=rp, desc="efc_address of a freshly recorded contact is not reset to -1")
  ctx.prove(sess, "no-other-write/contact_efc_address_out", Implies(kt.written("contact_efc_address_out", i, j), And(rec, fits, i == n0)), names=dict(names, i=i, j=j), replay=rp, desc="write_contact stores to efc_address outside the allocated slot")
  ret = kt.post("ret_out", 0)
  ctx.prove(sess, "return-value", cmp("==", ret, ite(And(rec, fits, ref_active(A)), 1, 0)), names=names, replay=rp, desc="write_contact return value is not 'recorded and active (dist < margin, or adhesive inside the gap)'")


# ------------------------------------------------------------------------------------------------ unit: _add_geom_pair via _nxn_broadphase

PAIR_OUT = ["collision_pair_out", "collision_pairid_out", "collision_worldid_out"]


def goal_addpair(spec, pre, post):
  a = spec["args"]
  w, e = spec["tid"][0], spec["tid"][1]
  naconmax = int(a["naconmax_in"]["scalar"])
  n0, n1 = int(pre["ncollision_out"][0]), int(post["ncollision_out"][0])
  g = [int(x) for x in pre["nxn_geom_pair"][e]]
  t = [int(pre["geom_type"][x]) for x in g]
  pair = [g[1], g[0]] if t[0] > t[1] else g
  msgs = []
  added = n1 == n0 + 1
  if spec["env"].get("always") and not added:
    msgs.append(f"ncollision {n0} -> {n1}: pair not added")
  for F, exp_val in (("collision_pair_out", pair), ("collision_pairid_out", [int(x) for x in pre["nxn_pairid"][e]]), ("collision_worldid_out", w)):
    exp = pre[F].copy()
    if added and 0 <= n0 < naconmax and n0 < exp.shape[0]:
      exp[n0] = exp_val
    if not np.array_equal(post[F], exp):
      msgs.append(f"{F}: real {post[F].tolist()} expected {exp.tolist()} (slot {n0}, naconmax {naconmax}, geoms {g} types {t})")
  return (not msgs), "_nxn_broadphase/_add_geom_pair: " + "; ".join(msgs)


def unit_addpair(filt):
  def run(ctx):
    from mujoco_warp._src import collision_driver as cdv

    k = cdv._nxn_broadphase(filt, 1, 1, 1, 1)
    loc = f"mujoco_warp._src.collision_driver:_nxn_broadphase({filt}, 1, 1, 1, 1)"
    ctx.encode(k, cdv._add_geom_pair)
    ctx.bound(shape_cap=5, broadphase_filter=filt, note="one generic thread (world, pair element); filter bits: 1 plane, 2 sphere (floats uninterpreted)")
    ctx.assume("thread's reads of model/data arrays in bounds (C17); writes to the collision_* arrays are PROVED in bounds", "ncollision >= 0; collision_* arrays have naconmax rows", "float arithmetic uninterpreted (which pair is stored where does not depend on float values)")
    naconmax = z3.Int("naconmax_in")
    shapes = {F: [naconmax] for F in PAIR_OUT}
    shapes["ncollision_out"] = [1]
    kt = lib.kernel_thread(k, shapes=shapes, scalars={"naconmax_in": naconmax}, cap=5, interp_kw={"float_uf": True}, assume_bounds=False)
    own = [o for o in kt.it.obl if o.kind == "bounds" and o.info and o.info[1] in PAIR_OUT]
    kt.bg += [core.zbool(Implies(o.guard, o.strict)) for o in kt.it.obl if o.kind == "bounds" and o not in own]
    w, e = kt.tid
    n0 = kt.pre("ncollision_out", 0)
    n = kt.atomic_total("ncollision_out", 0)
    g1, g2 = kt.pre("nxn_geom_pair", e, k=0), kt.pre("nxn_geom_pair", e, k=1)
    t1, t2 = kt.pre("geom_type", g1), kt.pre("geom_type", g2)
    bg = kt.bg + [naconmax >= 0, n0 >= 0]
    sess = ctx.session(bg)
    added = cmp("==", n, 1)
    fits = cmp("<", n0, naconmax)
    ctx.reach(sess, "twin:added-and-fits", And(added, fits))
    ctx.reach(sess, "twin:swapped", And(added, fits, cmp(">", t1, t2)))
    names = {"world": w, "element": e, "ncollision0": n0, "naconmax": naconmax, "geom1": g1, "geom2": g2, "type1": t1, "type2": t2}
    rp = lib.make_replay(ctx, kt, loc, "addpair", "goal", goal="checks.c04:goal_addpair", env={"always": filt == 0})
    for bi, o in enumerate(own):
      ctx.prove(sess, f"capacity-guard/in-bounds@{o.where}#{bi}", o.strict, o.guard, names=names, replay=lib.make_replay(ctx, kt, loc, f"bounds{bi}", "bounds"), desc=f"broadphase thread writes a collision_* array outside its naconmax rows at {o.where}")
    ctx.prove(sess, "counter-0-or-1", Or(cmp("==", n, 0), added), names=names, replay=rp, desc="a broadphase thread advances ncollision by more than one")
    if filt == 0:
      ctx.prove(sess, "always-added", added, names=names, replay=rp, desc="broadphase without filter drops a listed pair")
    ctx.prove(sess, "sensor-pair-always-added", added, cmp(">=", kt.pre("nxn_pairid", e, k=1), 0), names=names, replay=rp, desc="a collision-sensor pair is dropped by the broadphase filter")
    swap = cmp(">", t1, t2)
    want = {"collision_pair_out": [ite(swap, g2, g1), ite(swap, g1, g2)], "collision_pairid_out": [kt.pre("nxn_pairid", e, k=0), kt.pre("nxn_pairid", e, k=1)], "collision_worldid_out": [w]}
    i = z3.Int("i")
    for F in PAIR_OUT:
      goal = And(*[cmp("==", kt.post(F, n0, k=c), want[F][c]) for c in range(len(want[F]))])
      ctx.prove(sess, f"slot/{F}", goal, And(added, fits), names=names, replay=rp, desc=f"{F} of the allocated slot is not (type-ordered geoms / pair ids of the element / world id)")
      ctx.prove(sess, f"no-other-write/{F}", Implies(kt.written(F, i), And(added, fits, i == n0)), names=dict(names, i=i), replay=rp, desc=f"broadphase thread stores to {F} outside its slot or beyond naconmax")

  return (f"addpair/filter{filt}", run)


# ------------------------------------------------------------------------------------------------ unit: narrowphase wiring (real kernel)

PIPE = {
  "plane_sphere": ("PLANE", "SPHERE"),
  "sphere_sphere": ("SPHERE", "SPHERE"),
  "sphere_capsule": ("SPHERE", "CAPSULE"),
}


def _pipe_locator(t1, t2):
  return f"mujoco_warp._src.collision_primitive:_primitive_narrowphase([(GeomType.{t1}, GeomType.{t2})], [_PRIMITIVE_COLLISIONS[(GeomType.{t1}, GeomType.{t2})]])"


def _np_make_frame_ok(F, n):
  from checks import geom_c20

  msgs = geom_c20._frame_report(F, "contact frame")
  ln = np.linalg.norm(n)
  if ln > 1e-6 and np.abs(np.asarray(F)[0] - n / ln).max() > 2e-3:
    msgs.append(f"frame normal {np.asarray(F)[0].tolist()} is not {(n / ln).tolist()}")
  return msgs


def goal_pipeline(spec, pre, post):
  """replay goal: the real narrowphase kernel thread leaves the contact MuJoCo's rules give for this candidate"""
  from checks import geom_c20

  which = spec["env"]["which"]
  tid = int(spec["tid"][0])
  a = spec["args"]
  naconmax = int(a["naconmax_in"]["scalar"])
  n0, n1 = int(pre["nacon_out"][0]), int(post["nacon_out"][0])
  if tid >= int(pre["ncollision_in"][0]):
    return (n1 == n0), f"thread beyond ncollision changed nacon {n0}->{n1}"
  g1, g2 = (int(x) for x in pre["collision_pair_in"][tid])
  w = int(pre["collision_worldid_in"][tid])
  pid = [int(x) for x in pre["collision_pairid_in"][tid]]

  class _KT:
    args = {"cid": tid, "worldid": w}

    class _C:
      def __init__(self, shape):
        self.shape = shape

    def cell(self, label):
      return self._C(pre[label].shape)

  def getter(label, *idx, k=0):
    arr = pre[label]
    idx = tuple(int(i) for i in idx)
    if any(i < 0 or i >= s_ for i, s_ in zip(idx, arr.shape)):
      return 0.0
    v = np.asarray(arr[idx]).reshape(-1)[k]
    return int(v) if arr.dtype.kind == "i" else float(v)

  G1, G2, Pr, pairid, _, _ = _read_inputs(_KT(), getter)
  P = ref_contact_param(G1, G2, Pr, pairid)
  x1, x2 = pre["geom_xpos_in"][w, g1].astype(float), pre["geom_xpos_in"][w, g2].astype(float)
  R1, R2 = pre["geom_xmat_in"][w, g1].astype(float), pre["geom_xmat_in"][w, g2].astype(float)
  s1 = pre["geom_size"][w % pre["geom_size"].shape[0], g1].astype(float)
  s2 = pre["geom_size"][w % pre["geom_size"].shape[0], g2].astype(float)
  if which == "plane_sphere":
    n = R1[:, 2]
    dist = float(np.dot(x2 - x1, n) - s2[0])
    pos = x2 - n * (s2[0] + 0.5 * dist)
  else:
    c2 = x2 if which == "sphere_sphere" else geom_c20._closest_exact(x2 - R2[:, 2] * s2[1], x2 + R2[:, 2] * s2[1], x1)[0]
    d = c2 - x1
    L = float(np.linalg.norm(d))
    n = d / L if L > 0 else np.array([1.0, 0, 0])
    dist = L - s1[0] - s2[0]
    pos = x1 + n * (s1[0] + 0.5 * dist)
  rec = bool(ref_recorded(dist, P["margin"], P["gap"], pid[0], pid[1]))
  msgs = []
  if n1 != n0 + (1 if rec else 0):
    msgs.append(f"nacon {n0}->{n1} but MuJoCo's rule records: {rec} (dist {dist}, margin {P['margin']}, gap {P['gap']}, pairid {pid})")
  if rec and n1 == n0 + 1 and 0 <= n0 < naconmax:
    exp = {
      "contact_dist_out": dist, "contact_pos_out": pos, "contact_includemargin_out": P["margin"], "contact_friction_out": P["friction"],
      "contact_solref_out": P["solref"], "contact_solreffriction_out": P["solreffriction"], "contact_solimp_out": P["solimp"],
      "contact_dim_out": ref_dim(dist, P["margin"], P["condim"], P["adhesion"]), "contact_geom_out": [g1, g2], "contact_worldid_out": w,
      "contact_adhesion_out": P["adhesion"], "contact_geomcollisionid_out": 0,
    }
    scale = 1 + max(abs(dist), np.abs(x1).max(), np.abs(x2).max())
    for F, v in exp.items():
      got = np.asarray(post[F][n0], dtype=float).reshape(-1)
      want = np.asarray(v, dtype=float).reshape(-1)
      if not np.allclose(got, want, rtol=2e-3, atol=2e-3 * scale):
        msgs.append(f"{F}[{n0}] = {got.tolist()} expected {want.tolist()}")
    msgs += _np_make_frame_ok(post["contact_frame_out"][n0].astype(float), n)
  return (not msgs), f"narrowphase {which} thread {tid} geoms ({g1},{g2}) world {w}: " + ("; ".join(msgs[:4]) or "ok")


def fmul_commutes(terms):
  """instances of fmul(a, b) = fmul(b, a) for every product occurring in `terms` (the float abstraction orders the operands
  of a product by term id, which differs between the kernel run and the reference run)"""
  seen, out, stack = set(), [], [t for t in terms if is_sym(t)]
  while stack:
    t = stack.pop()
    if t.get_id() in seen:
      continue
    seen.add(t.get_id())
    if z3.is_app(t):
      if t.decl().name() == "fmul" and t.num_args() == 2:
        out.append(t == t.decl()(t.arg(1), t.arg(0)))
      stack.extend(t.children())
  return out


def unit_pipeline(which):
  def run(ctx):
    from mujoco_warp._src import collision_core as cc
    from mujoco_warp._src import collision_primitive as cp
    from mujoco_warp._src import collision_primitive_core as cpc
    from mujoco_warp._src import math as mjmath
    from mujoco_warp._src.types import GeomType

    t1, t2 = PIPE[which]
    types = [(getattr(GeomType, t1), getattr(GeomType, t2))]
    k = cp._primitive_narrowphase(types, [cp._PRIMITIVE_COLLISIONS[types[0]]])
    loc = _pipe_locator(t1, t2)
    ctx.encode(k, cp._PRIMITIVE_COLLISIONS[types[0]], cc.geom_collision_pair, cc.contact_params, cc.write_contact)
    ctx.bound(unroll=5, shape_cap=4, note=f"one generic thread of the real narrowphase kernel specialised to {t1}-{t2}; float products / quotients / sqrt uninterpreted (wiring claim: the stored geometry is the core function applied to the right geoms' pose and size; the core functions themselves are the geometry units)")
    ctx.assume("thread's own accesses in bounds (C17)", "0 <= nacon, worldid >= 0; per-world model arrays have >= 1 batch row", "pairid[0] >= -2, pairid[1] >= -1")
    naconmax = z3.Int("naconmax_in")
    kt = lib.kernel_thread(k, scalars={"naconmax_in": naconmax}, unroll=5, cap=4, interp_kw={"float_uf": True})
    tid = kt.tid
    g1, g2 = kt.pre("collision_pair_in", tid, k=0), kt.pre("collision_pair_in", tid, k=1)
    w = kt.pre("collision_worldid_in", tid)
    pid0, pid1 = kt.pre("collision_pairid_in", tid, k=0), kt.pre("collision_pairid_in", tid, k=1)
    n0 = kt.pre("nacon_out", 0)
    kt.args["cid"], kt.args["worldid"] = tid, w
    G1, G2, Pr, pairid, _, _ = _read_inputs(kt, kt.pre)
    P = ref_contact_param(G1, G2, Pr, pairid)
    # expected geometry: the real core function (interpreted with the same float abstraction) on the pair's pose / size
    xp = lambda g: kt.prev("geom_xpos_in", w, g)
    xm = lambda g: kt.prev("geom_xmat_in", w, g)
    sz = lambda g: kt.prev("geom_size", arith("%", w, kt.cell("geom_size").shape[0]), g)
    col2 = lambda M: core.Vec([M.c[2], M.c[5], M.c[8]], (3,), "f")
    if which == "plane_sphere":
      nrm = col2(xm(g1))
      it2, (dist, pos) = kh.run(cpc.plane_sphere, [nrm, xp(g1), xp(g2), sz(g2).c[0]], float_uf=True)
    elif which == "sphere_sphere":
      it2, (dist, pos, nrm) = kh.run(cpc.sphere_sphere, [xp(g1), sz(g1).c[0], xp(g2), sz(g2).c[0]], float_uf=True)
    else:
      it2, (dist, pos, nrm) = kh.run(cpc.sphere_capsule, [xp(g1), sz(g1).c[0], xp(g2), col2(xm(g2)), sz(g2).c[0], sz(g2).c[1]], float_uf=True)
    it3, frame = kh.run(mjmath.make_frame, [nrm], float_uf=True)
    active = And(cmp("<", tid, kt.pre("ncollision_in", 0)), cmp("==", kt.pre("geom_type", g1), int(types[0][0])), cmp("==", kt.pre("geom_type", g2), int(types[0][1])))
    bg = kt.bg + [core.zbool(x) for x in it2.assumes + it3.assumes] + [naconmax >= 0, n0 >= 0, w >= 0, pid0 >= -2, pid1 >= -1] + batch_rows(kt)
    sess = ctx.session(bg)
    rec = ref_recorded(dist, P["margin"], P["gap"], pid0, pid1)
    fits = cmp("<", n0, naconmax)
    ctx.reach(sess, "twin:recorded", And(active, rec, fits))
    names = {"tid": tid, "geom1": g1, "geom2": g2, "world": w, "pairid0": pid0, "pairid1": pid1, "nacon0": n0, "naconmax": naconmax}
    rp = lib.make_replay(ctx, kt, loc, f"pipeline-{which}", "goal", goal="checks.c04:goal_pipeline", env={"which": which, "randomize_floats": 8})
    cnt = kt.atomic_total("nacon_out", 0)
    want = {
      "contact_dist_out": [dist], "contact_pos_out": list(pos.c), "contact_frame_out": list(frame.c), "contact_includemargin_out": [P["margin"]],
      "contact_friction_out": P["friction"], "contact_solreffriction_out": P["solreffriction"], "contact_dim_out": [ref_dim(dist, P["margin"], P["condim"], P["adhesion"])],
      "contact_geom_out": [g1, g2], "contact_worldid_out": [w], "contact_adhesion_out": [P["adhesion"]], "contact_geomcollisionid_out": [0],
    }
    allterms = [core.to_z3(v, "real") if not is_sym(v) else v for vals in want.values() for v in vals] + [kt.post(F, n0, k=c) for F, vals in want.items() for c in range(len(vals))] + [core.zbool(rec), core.to_z3(cnt, "int")]
    sess.add(*fmul_commutes(allterms))
    ctx.prove(sess, "counter", cmp("==", cnt, ite(And(active, rec), 1, 0)), names=names, replay=rp, desc=f"narrowphase {which}: a candidate pair is (not) recorded against MuJoCo's rule dist < margin + gap / filter / sensor")
    for F, vals in want.items():
      goal = And(*[cmp("==", kt.post(F, n0, k=c), v) for c, v in enumerate(vals)])
      ctx.prove(sess, f"slot/{F}", goal, And(active, rec, fits), names=names, replay=rp, desc=f"narrowphase {which}: {F} of the recorded contact is not what the pair's pose / size / parameters give (wrong geom, world, argument or parameter wired through)")

  return (f"pipeline/{which}", run)


# ------------------------------------------------------------------------------------------------ main


def main(tier, seed, only=None):
  from checks import geom_c20

  units = [("params", unit_params), ("write", unit_write), unit_addpair(0), unit_addpair(3)]
  units += [unit_pipeline(w) for w in PIPE]
  if tier == "thorough":
    units += [unit_addpair(1), unit_addpair(2)]
  units += geom_c20.units()
  if only:
    units = [u for u in units if any(o in u[0] for o in only)]
  return report.run_check(PID, units, tier, seed)
